// c22: transaction and receipt lists preserve order and index.
// Lists of many sizes (crossing the index-key length boundaries 128, 256, 32768)
// are built from slices; iteration order/index, Get(i), hash equality with the
// list reloaded from its hash and with an independently keyed byte trie are the
// direct oracle; index keys and the smaller lists also go to the Coq model.
package main

import (
	"bytes"
	"encoding/json"
	"fmt"
	"math/big"
	"math/rand"
	"strings"
	"sync"

	"github.com/icon-project/goloop/common"
	"github.com/icon-project/goloop/common/codec"
	"github.com/icon-project/goloop/common/trie/trie_manager"
	"github.com/icon-project/goloop/module"
	"github.com/icon-project/goloop/service/transaction"
	"github.com/icon-project/goloop/service/txresult"
	"verif/harness/hxlib"
	tl "verif/harness/trielib"
)

type listIn struct {
	Kind string `json:"kind"` // tx | receipt
	N    int    `json:"n"`
	Seed int64  `json:"seed"`
}

type keyIn struct {
	I uint64 `json:"i"`
}

// reference index key, written independently of the code under test: minimal
// big-endian bytes, one leading zero byte if the top bit is set, as an RLP string
func refKey(i uint64) []byte {
	var b []byte
	for v := i; v > 0; v >>= 8 {
		b = append([]byte{byte(v)}, b...)
	}
	if len(b) == 0 || b[0]&0x80 != 0 {
		b = append([]byte{0}, b...)
	}
	if len(b) == 1 && b[0] < 0x80 {
		return b
	}
	return append([]byte{byte(0x80 + len(b))}, b...)
}

func makeTxs(n int, r *rand.Rand) []module.Transaction {
	txs := make([]module.Transaction, n)
	salt := r.Intn(1 << 20)
	for i := range txs {
		js := fmt.Sprintf(`{"version":"0x3","from":"hx54f7853dc6481b670caf69c5a27c7c8fe5be8269","to":"hx49a23bd156932485471f582897bf1bec5f875751","value":"0x%x","stepLimit":"0x1000","timestamp":"0x%x","nid":"0x1","nonce":"0x%x","signature":"bjarKeF3izGy469dpSciP3TT9caBQVYgHdaNgjY+8wJTOVSFm4o/ODXycFOdXUJcIwqvcE9If8x6Zmgt//XmkQE="}`,
			i+1, 1000+salt, i)
		tx, err := transaction.NewTransactionFromJSON([]byte(js))
		if err != nil {
			panic(err)
		}
		txs[i] = tx
	}
	return txs
}

func makeReceipts(d *tl.RecDB, n int, r *rand.Rand) []txresult.Receipt {
	rs := make([]txresult.Receipt, n)
	addr := common.MustNewAddressFromString("hx8888888888888888888888888888888888888888")
	salt := int64(r.Intn(1 << 20))
	for i := range rs {
		rc := txresult.NewReceipt(d, module.Revision(0), addr)
		rc.SetResult(module.StatusSuccess, big.NewInt(int64(i)*100+salt), big.NewInt(int64(i%7)+1), nil)
		rs[i] = rc
	}
	return rs
}

type listObs struct {
	items [][]byte // Bytes() of the inputs
	root  []byte
	iter  [][2]int // (index reported, position of the returned bytes in items or 1000000)
	gets  [][2]int // (i, position or -1)
	table *tl.Table
}

func runList(in listIn, forCoq bool) (obs listObs, oracle string) {
	fail := func(format string, a ...interface{}) {
		if oracle == "" {
			oracle = fmt.Sprintf(format, a...)
		}
	}
	r := rand.New(rand.NewSource(in.Seed))
	d := tl.NewRecDB()
	n := in.N
	pos := map[string]int{}
	what := fmt.Sprintf("%s list of %d items", in.Kind, n)

	var hash []byte
	// iterate(f) calls f(index or -1 if the iterator does not report one, bytes)
	var iterate func(reload bool, f func(int, []byte)) error
	var get func(reload bool, i int) ([]byte, error)

	switch in.Kind {
	case "tx":
		txs := makeTxs(n, r)
		for i, tx := range txs {
			obs.items = append(obs.items, tx.Bytes())
			pos[string(tx.Bytes())] = i
		}
		l := transaction.NewTransactionListFromSlice(d, txs)
		hash = l.Hash()
		if err := l.Flush(); err != nil {
			fail("%s: Flush error %v", what, err)
		}
		l2 := transaction.NewTransactionListFromHash(d, hash)
		if !bytes.Equal(l2.Hash(), hash) || !l.Equal(l2) {
			fail("%s: list reloaded from hash %x reports hash %x", what, hash, l2.Hash())
		}
		pick := func(reload bool) module.TransactionList {
			if reload {
				return l2
			}
			return l
		}
		iterate = func(reload bool, f func(int, []byte)) error {
			for it := pick(reload).Iterator(); it.Has(); it.Next() {
				tx, i, err := it.Get()
				if err != nil {
					return err
				}
				f(i, tx.Bytes())
			}
			return nil
		}
		get = func(reload bool, i int) ([]byte, error) {
			tx, err := pick(reload).Get(i)
			if err != nil || tx == nil {
				return nil, err
			}
			return tx.Bytes(), nil
		}
	case "receipt":
		rs := makeReceipts(d, n, r)
		for i, rc := range rs {
			obs.items = append(obs.items, rc.Bytes())
			pos[string(rc.Bytes())] = i
		}
		l := txresult.NewReceiptListFromSlice(d, rs)
		hash = l.Hash()
		if err := l.Flush(); err != nil {
			fail("%s: Flush error %v", what, err)
		}
		l2 := txresult.NewReceiptListFromHash(d, hash)
		if !bytes.Equal(l2.Hash(), hash) {
			fail("%s: list reloaded from hash %x reports hash %x", what, hash, l2.Hash())
		}
		pick := func(reload bool) module.ReceiptList {
			if reload {
				return l2
			}
			return l
		}
		iterate = func(reload bool, f func(int, []byte)) error {
			for it := pick(reload).Iterator(); it.Has(); it.Next() {
				rc, err := it.Get()
				if err != nil {
					return err
				}
				f(-1, rc.Bytes())
			}
			return nil
		}
		get = func(reload bool, i int) ([]byte, error) {
			rc, err := pick(reload).Get(i)
			if err != nil || rc == nil {
				return nil, err
			}
			return rc.Bytes(), nil
		}
	default:
		return obs, "unknown list kind " + in.Kind
	}
	if len(pos) != n {
		return obs, fmt.Sprintf("harness: generated items are not distinct (%d of %d)", len(pos), n)
	}
	obs.root = hash
	if (hash == nil) != (n == 0) {
		fail("%s: Hash() = %x", what, hash)
	}

	// iteration: original order, original index
	for _, reload := range []bool{false, true} {
		cnt := 0
		err := iterate(reload, func(idx int, b []byte) {
			p, ok := pos[string(b)]
			if !ok {
				p = 1000000
			}
			if !reload {
				ri := idx
				if ri < 0 {
					ri = cnt
				}
				obs.iter = append(obs.iter, [2]int{ri, p})
			}
			if p != cnt {
				fail("%s (reloaded=%v): iteration position %d returns the item that was at position %d of the slice", what, reload, cnt, p)
			}
			if idx >= 0 && idx != cnt {
				fail("%s (reloaded=%v): iteration position %d reports index %d", what, reload, cnt, idx)
			}
			cnt++
		})
		if err != nil {
			fail("%s (reloaded=%v): iterator error after %d items: %v", what, reload, cnt, err)
		}
		if cnt != n {
			fail("%s (reloaded=%v): iteration returned %d items", what, reload, cnt)
		}
	}
	// Get(i)
	probe := map[int]bool{}
	if n <= 300 {
		for i := 0; i < n; i++ {
			probe[i] = true
		}
	} else {
		for _, b := range []int{0, 1, 127, 128, 129, 255, 256, 257, 32767, 32768, 32769, 65535, 65536, 65537, n - 2, n - 1} {
			if b >= 0 && b < n {
				probe[b] = true
			}
		}
		for j := 0; j < 300; j++ {
			probe[r.Intn(n)] = true
		}
	}
	for i := 0; i < n; i++ {
		if !probe[i] {
			continue
		}
		for _, reload := range []bool{false, true} {
			b, err := get(reload, i)
			p, ok := pos[string(b)]
			if err != nil || !ok || p != i {
				fail("%s (reloaded=%v): Get(%d) returns err=%v item-position=%d", what, reload, i, err, p)
			}
			if !reload {
				obs.gets = append(obs.gets, [2]int{i, p})
			}
		}
	}
	// the lists are shared between goroutines in goloop: concurrent lookups on ONE list object
	// (8 goroutines; a short extra oracle outside the property's quantifier over inputs)
	if n >= 16 && n <= 1000 {
		var wg sync.WaitGroup
		var mu sync.Mutex
		bad := ""
		for g := 0; g < 8; g++ {
			wg.Add(1)
			gr := rand.New(rand.NewSource(in.Seed + int64(g)))
			go func() {
				defer wg.Done()
				defer func() {
					if p := recover(); p != nil {
						mu.Lock()
						bad = fmt.Sprintf("panic %v", p)
						mu.Unlock()
					}
				}()
				for it := 0; it < 4000; it++ {
					i := gr.Intn(n)
					b, err := get(it%2 == 0, i)
					if err != nil || !bytes.Equal(b, obs.items[i]) {
						mu.Lock()
						if bad == "" {
							bad = fmt.Sprintf("Get(%d) err=%v returns another item", i, err)
						}
						mu.Unlock()
						return
					}
				}
			}()
		}
		wg.Wait()
		if bad != "" {
			fail("%s: concurrent lookups by 8 goroutines on one list: %s", what, bad)
		}
	}
	for _, i := range []int{n, n + 1, n + 128} {
		b, err := get(false, i)
		if b != nil && err == nil {
			fail("%s: Get(%d) beyond the end returns an item", what, i)
		}
		obs.gets = append(obs.gets, [2]int{i, -1})
	}
	// the root is the root of the byte trie {refKey(i) -> item_i}
	rd := tl.NewRecDB()
	m := trie_manager.NewMutable(rd, nil)
	perm := r.Perm(n)
	for _, i := range perm {
		m.Set(refKey(uint64(i)), obs.items[i])
	}
	s := m.GetSnapshot()
	if !bytes.Equal(s.Hash(), hash) {
		fail("%s: root %x differs from the root %x of a trie holding item i under the canonical unsigned-integer RLP key of i", what, hash, s.Hash())
	}
	if forCoq {
		s.Flush()
		obs.table = tl.NewTable()
		obs.table.AddDB(rd)
		obs.table.AddDB(d)
	}
	return obs, oracle
}

func (o listObs) coq() string {
	it := make([]string, len(o.iter))
	for i, x := range o.iter {
		it[i] = fmt.Sprintf("(%d,%d%%nat)", x[0], x[1])
	}
	gs := make([]string, len(o.gets))
	for i, x := range o.gets {
		if x[1] < 0 {
			gs[i] = fmt.Sprintf("(%d,None)", x[0])
		} else {
			gs[i] = fmt.Sprintf("(%d,Some %d%%nat)", x[0], x[1])
		}
	}
	return fmt.Sprintf("(CList %s\n %s\n %s\n [%s]\n [%s])", o.table.Coq(), tl.CoqBytesList(o.items), tl.Bx(o.root),
		strings.Join(it, ";"), strings.Join(gs, ";"))
}

func keyCase(i uint64) (string, string) {
	msg := ""
	var k []byte
	if p := hxlib.Catch(func() { k = transaction.VerifIntToKey(int(i)) }); p != "" {
		return "", "intToKey panics: " + p
	}
	k2, _ := codec.BC.MarshalToBytes(uint(i))
	if !bytes.Equal(k, k2) {
		msg = fmt.Sprintf("transaction list key of %d is %x, receipt list key is %x", i, k, k2)
	}
	if !bytes.Equal(k, refKey(i)) && msg == "" {
		msg = fmt.Sprintf("index key of %d is %x, canonical unsigned-integer RLP is %x", i, k, refKey(i))
	}
	var idx uint
	dec := "None"
	if _, err := codec.BC.UnmarshalFromBytes(k, &idx); err == nil {
		dec = fmt.Sprintf("(Some %d)", idx)
		if uint64(idx) != i && msg == "" {
			msg = fmt.Sprintf("index key %x of %d decodes to %d", k, i, idx)
		}
	} else if msg == "" {
		msg = fmt.Sprintf("index key %x of %d does not decode: %v", k, i, err)
	}
	return fmt.Sprintf("(CKey %d %s %s)", i, tl.Bx(k), dec), msg
}

func safeList(in listIn, forCoq bool) (obs listObs, msg string) {
	if p := hxlib.Catch(func() { obs, msg = runList(in, forCoq) }); p != "" {
		msg = "panic: " + p
	}
	return
}

func gen(c *hxlib.Ctx) {
	r := c.Rand
	// index keys: every boundary of the encoding and random values of every byte length
	var is []uint64
	for i := uint64(0); i < 300; i++ {
		is = append(is, i)
	}
	for sh := uint(7); sh < 63; sh += 8 {
		b := uint64(1) << sh
		is = append(is, b-2, b-1, b, b+1, b<<1-1, b<<1, b<<1+1)
	}
	is = append(is, 1<<62, 1<<63-1)
	for j := 0; j < c.N(300); j++ {
		is = append(is, r.Uint64()>>uint(r.Intn(63)+1))
	}
	var keyCases, listCases []hxlib.Case
	for _, i := range is {
		coq, msg := keyCase(i)
		keyCases = append(keyCases, hxlib.Case{Kind: "key", Coq: coq, Input: map[string]interface{}{"t": "key", "v": keyIn{i}}, Nontrivial: i >= 128, OracleErr: msg})
	}
	// strict monotonicity of the key order on consecutive pairs (what makes trie order = index order)
	for _, i := range is {
		if i+1 > i && int(i+1) > 0 {
			a, b := transaction.VerifIntToKey(int(i)), transaction.VerifIntToKey(int(i+1))
			if bytes.Compare(a, b) >= 0 {
				keyCases = append(keyCases, hxlib.Case{Kind: "key-order", Input: map[string]interface{}{"t": "key", "v": keyIn{i}},
					OracleErr: fmt.Sprintf("key(%d)=%x is not below key(%d)=%x in byte order", i, a, i+1, b)})
			}
		}
	}
	sizes := []int{0, 1, 2, 16, 17, 127, 128, 129, 255, 256, 257, 1000}
	if c.Tier == "thorough" {
		sizes = append(sizes, 32767, 32768, 32769, 65535, 65536, 65537, 65600)
	}
	for j := 0; j < 4; j++ {
		sizes = append(sizes, 3+r.Intn(120))
	}
	for _, kind := range []string{"tx", "receipt"} {
		for _, n := range sizes {
			in := listIn{Kind: kind, N: n, Seed: r.Int63()}
			forCoq := !c.OracleOnly && ((n <= 130 && n != 127 && n != 128) || (kind == "receipt" && n <= 257))
			obs, msg := safeList(in, forCoq)
			coq := ""
			if forCoq && obs.table != nil {
				coq = obs.coq()
			}
			listCases = append(listCases, hxlib.Case{Kind: kind + "-list", Coq: coq, Input: map[string]interface{}{"t": "list", "v": in},
				Nontrivial: n >= 2, OracleErr: msg, Key: fmt.Sprintf("%s/%d/%d", kind, n, in.Seed)})
		}
	}
	// one list beyond the 16-bit index range in every tier (direct oracle only)
	if c.Tier != "thorough" {
		in := listIn{Kind: "receipt", N: 65537, Seed: r.Int63()}
		_, msg := safeList(in, false)
		listCases = append(listCases, hxlib.Case{Kind: "receipt-list", Input: map[string]interface{}{"t": "list", "v": in},
			Nontrivial: true, OracleErr: msg, Key: fmt.Sprintf("receipt/65537/%d", in.Seed)})
	}
	// interleave, so that the large list cases spread over the Coq shards
	step := len(keyCases)/(len(listCases)+1) + 1
	for i, kc := range keyCases {
		if i%step == 0 && len(listCases) > 0 {
			c.Emit(listCases[0])
			listCases = listCases[1:]
		}
		c.Emit(kc)
	}
	for _, lc := range listCases {
		c.Emit(lc)
	}
	// canaries
	c.Emit(hxlib.Case{Kind: "canary", Canary: true, Coq: "(CKey 128 [129;128] (Some 128))"})
	c.Emit(hxlib.Case{Kind: "canary", Canary: true, Coq: "(CList [] [[1];[2]] [] [(1,0%nat);(0,1%nat)] [])"})
}

func replay(raw json.RawMessage) string {
	var in struct {
		T string          `json:"t"`
		V json.RawMessage `json:"v"`
	}
	if err := json.Unmarshal(raw, &in); err != nil {
		return "bad replay input: " + err.Error()
	}
	switch in.T {
	case "key":
		var k keyIn
		json.Unmarshal(in.V, &k)
		_, msg := keyCase(k.I)
		if msg == "" && k.I+1 > k.I && int(k.I+1) > 0 {
			a, b := transaction.VerifIntToKey(int(k.I)), transaction.VerifIntToKey(int(k.I+1))
			if bytes.Compare(a, b) >= 0 {
				msg = fmt.Sprintf("key(%d)=%x is not below key(%d)=%x in byte order", k.I, a, k.I+1, b)
			}
		}
		return msg
	case "list":
		var l listIn
		json.Unmarshal(in.V, &l)
		_, msg := safeList(l, false)
		return msg
	}
	return "unknown case type " + in.T
}

func main() {
	hxlib.Main(hxlib.Spec{
		ID:       "C22",
		Rule:     "index keys of 0..299, of 2^(8k-1)-2..+1 and 2^(8k)-1..+1 for every byte length, and random values of every bit length (key bytes and decoded index compared with the model); transaction lists and receipt lists of sizes 0,1,2,16,17,127,128,129,255,256,257,1000, one receipt list of 65537 items (thorough: 32767,32768,32769,65535,65536,65537,65600 for both kinds) and four random sizes: iteration order and index, Get(i), reload from hash, root against an independently keyed byte trie; transaction lists up to 130 items except 127 and 128 (receipt lists: all up to 257) are also replayed on the model with their root hash; non-trivial = index >= 128 or list of at least two items; distinct = distinct Coq case / list seed",
		Shard:    40,
		Preamble: tl.Preamble("C22"),
		Gen:      gen, Replay: replay,
	})
}
