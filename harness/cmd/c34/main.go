// c34: staking operations conserve ICX and keep stake accounting consistent.
//
// Random operation histories are executed on the icsim simulator (the real IISS
// extension code on an in-memory state) at the latest revision; after every
// block the observable state is recorded and (a) checked directly against the
// property (direct oracle), (b) printed as a Coq case that Run_C34 replays in
// Model_Staking.
package main

import (
	"encoding/json"
	"fmt"
	"math/big"
	"math/rand"
	"sort"
	"strings"

	"github.com/icon-project/goloop/common"
	"github.com/icon-project/goloop/common/intconv"
	"github.com/icon-project/goloop/common/log"
	"github.com/icon-project/goloop/icon/icmodule"
	"github.com/icon-project/goloop/icon/icsim"
	"github.com/icon-project/goloop/icon/iiss/icstate"
	"github.com/icon-project/goloop/icon/iiss/icutils"
	"github.com/icon-project/goloop/module"
	"github.com/icon-project/goloop/service/state"
	"verif/harness/hxlib"
)

const (
	termPeriod     = 10
	slotMax        = 3
	unbondMax      = 3
	delegMax       = 4
	bondMax        = 100 // icstate maxBonds
	bonderMax      = 10  // icstate bonderListMax
	lockMinMult    = 1
	lockMaxMult    = 4
	unbondMult     = 1
	nSetupPReps    = 4
	knownSubstring = "unstake slot overdue"
)

var (
	icx        = big.NewInt(1_000_000_000_000_000_000)
	deci       = big.NewInt(100_000_000_000_000_000)
	regFee     = icmodule.BigIntRegPRepFee
	gov        = common.MustNewAddressFromString("cx0000000000000000000000000000000000000001")
	treasuryAd = common.MustNewAddressFromString("hx1000000000000000000000000000000000000000")
)

func bi(v int64) *big.Int              { return big.NewInt(v) }
func mul(a *big.Int, k int64) *big.Int { return new(big.Int).Mul(a, bi(k)) }
func add(a, b *big.Int) *big.Int       { return new(big.Int).Add(a, b) }
func sub(a, b *big.Int) *big.Int       { return new(big.Int).Sub(a, b) }

// ---------------------------------------------------------------- snapshots

type slot struct {
	V *big.Int
	E int64
}
type vote struct {
	To int
	V  *big.Int
}
type ubond struct {
	To int
	V  *big.Int
	E  int64
}
type asnap struct {
	Bal, Stake            *big.Int
	Unstakes              []slot
	Delegs, Bonds         []vote
	Unbonds               []ubond
	CDeleg, CBond, CUnbnd *big.Int // cached totals of the account object
	PStat                 int      // 0 none/NotReady 1 Active 2 Unregistered 3 other
	PDeleg, PBond         *big.Int
	HasBase               bool
	Bonders               []int
}
type snap struct {
	A                                     []asnap
	H                                     int64
	Supply, TStake, TDeleg, TBond, SysBal *big.Int
}

func sumSlots(l []slot) *big.Int {
	t := new(big.Int)
	for _, s := range l {
		t.Add(t, s.V)
	}
	return t
}
func sumVotes(l []vote) *big.Int {
	t := new(big.Int)
	for _, s := range l {
		t.Add(t, s.V)
	}
	return t
}
func sumUbonds(l []ubond) *big.Int {
	t := new(big.Int)
	for _, s := range l {
		t.Add(t, s.V)
	}
	return t
}
func (a *asnap) using() *big.Int {
	return add(add(sumVotes(a.Delegs), sumVotes(a.Bonds)), sumUbonds(a.Unbonds))
}
func (a *asnap) maxStake() *big.Int {
	return add(add(a.Bal, a.Stake), sumSlots(a.Unstakes))
}

// ---------------------------------------------------------------- operations

type opRec struct {
	Kind     string // transfer stake deleg bond bonders register unregister claim
	A, B     int
	Amt      *big.Int
	Lock     int64
	Votes    []vote
	List     []int
	tx       icsim.Transaction
	preRej   bool // rejected by the argument constructors (NewDelegations/NewBonds/NewBonderList)
	Accepted bool
}

// zs prints a Z literal (negative numbers in parentheses)
func zs(v *big.Int) string {
	if v.Sign() < 0 {
		return "(" + v.String() + ")"
	}
	return v.String()
}

// wire terms of Run_C34 (monomorphic constructors, right-nested)
func coqVotes(vs []vote) string {
	var sb strings.Builder
	for _, v := range vs {
		fmt.Fprintf(&sb, "(WV %d %s ", v.To, zs(v.V))
	}
	sb.WriteString("WVN")
	sb.WriteString(strings.Repeat(")", len(vs)))
	return sb.String()
}
func coqNats(l []int) string {
	var sb strings.Builder
	for _, v := range l {
		fmt.Fprintf(&sb, "(WN %d ", v)
	}
	sb.WriteString("WNN")
	sb.WriteString(strings.Repeat(")", len(l)))
	return sb.String()
}

func (o *opRec) coq() string {
	switch o.Kind {
	case "transfer":
		return fmt.Sprintf("(WTransfer %d %d %s)", o.A, o.B, zs(o.Amt))
	case "stake":
		return fmt.Sprintf("(WSetStake %d %s %d)", o.A, zs(o.Amt), o.Lock)
	case "deleg":
		return fmt.Sprintf("(WSetDelegation %d %s)", o.A, coqVotes(o.Votes))
	case "bond":
		return fmt.Sprintf("(WSetBond %d %s)", o.A, coqVotes(o.Votes))
	case "bonders":
		return fmt.Sprintf("(WSetBonderList %d %s)", o.A, coqNats(o.List))
	case "register":
		return fmt.Sprintf("(WRegister %d)", o.A)
	case "unregister":
		return fmt.Sprintf("(WUnregister %d)", o.A)
	case "claim":
		return fmt.Sprintf("(WClaim %d %s)", o.A, zs(o.Amt))
	}
	panic("unknown op kind " + o.Kind)
}

// ---------------------------------------------------------------- world

type world struct {
	sim   icsim.Simulator
	addrs []module.Address
	idx   map[string]int
	tre   int
	r     *rand.Rand
	prev  *snap
	// per account: expire heights at which two slots of the account were seen together
	sibling []map[int64]bool
	events  []string
	bals    []*big.Int
	other   []string // oracle failures that are NOT the known finding
	known   []string
	fatal   string
	// statistics
	nOps, nAcc, nRej                        int
	paidSlots, unbondsSeen, delegOK, bondOK int
	stakeDec, pairs, regOK, unregOK, claims int
	opKinds                                 map[string]int
	noObs                                   bool
	lastObs                                 *snap // the observation printed last (reference of the next delta)
	issuing                                 bool  // blocks run through VerifC34GoByBlockIssuing (base transaction issues ICX)
	issued                                  *big.Int
}

func addrOf(i int) module.Address {
	bs := make([]byte, common.AddressBytes)
	v := i + 1
	bs[common.AddressBytes-1] = byte(v)
	bs[common.AddressBytes-2] = byte(v >> 8)
	return common.MustNewAddress(bs)
}

func str(s string) *string { return &s }
func prepInfo(i int) *icstate.PRepInfo {
	n := fmt.Sprintf("node%d", i)
	return &icstate.PRepInfo{City: str("Seoul"), Country: str("KOR"), Name: str(n), Email: str(n + "@example.com"),
		WebSite: str("https://" + n + ".example.com/"), Details: str("https://" + n + ".example.com/d"),
		P2PEndpoint: str(n + ".example.com:9080")}
}

func newWorld(r *rand.Rand, nAcct int, bals []*big.Int) (*world, error) {
	cfg := icsim.NewSimConfig()
	cfg.TermPeriod = termPeriod
	cfg.MainPRepCount = 3
	cfg.SubPRepCount = 2
	cfg.ExtraMainPRepCount = 0
	cfg.UnstakeSlotMax = slotMax
	cfg.UnbondingMax = unbondMax
	cfg.DelegationSlotMax = delegMax
	cfg.LockMinMultiplier = lockMinMult
	cfg.LockMaxMultiplier = lockMaxMult
	cfg.UnbondingPeriodMultiplier = unbondMult
	// icsim's default Rrep is 0: with it the IISS2 calculator of the pre-decentralisation
	// term drops that term's delegation/bond events (see docs/notes/C34.md); mainnet default:
	cfg.Rrep = icmodule.DefaultRRep
	cfg.RewardFund.Iglobal = 9_000_000_000_000_000_000 // int64 field: the largest order of magnitude that fits
	w := &world{r: r, idx: map[string]int{}, opKinds: map[string]int{}}
	var validators []module.Validator
	for i := 0; i < int(cfg.MainPRepCount); i++ {
		v, _ := state.ValidatorFromAddress(addrOf(4000 + i))
		validators = append(validators, v)
	}
	balances := map[string]*big.Int{}
	for i := 0; i < nAcct; i++ {
		w.addrs = append(w.addrs, addrOf(i))
	}
	w.addrs = append(w.addrs, treasuryAd)
	w.tre = nAcct
	for i, a := range w.addrs {
		w.idx[icutils.ToKey(a)] = i
		if bals[i].Sign() > 0 {
			balances[icutils.ToKey(a)] = bals[i]
		}
		w.sibling = append(w.sibling, map[int64]bool{})
	}
	w.bals = bals
	sim, err := icsim.NewSimulator(icmodule.ValueToRevision(icmodule.LatestRevision), validators, balances, cfg)
	if err != nil {
		return nil, err
	}
	w.sim = sim
	w.prev = w.observe()
	w.lastObs = w.prev
	return w, nil
}

func (w *world) index(a module.Address) int {
	if i, ok := w.idx[icutils.ToKey(a)]; ok {
		return i
	}
	return -1
}

func (w *world) observe() *snap {
	sim := w.sim
	st := icsim.VerifC34State(sim)
	s := &snap{H: sim.BlockHeight(), Supply: sim.TotalSupply(), TStake: st.GetTotalStake(),
		TDeleg: st.GetTotalDelegation(), TBond: st.GetTotalBond(), SysBal: sim.GetBalance(state.SystemAddress)}
	for _, ad := range w.addrs {
		a := asnap{Bal: sim.GetBalance(ad), Stake: new(big.Int), CDeleg: new(big.Int), CBond: new(big.Int),
			CUnbnd: new(big.Int), PDeleg: new(big.Int), PBond: new(big.Int)}
		if ia := st.GetAccountSnapshot(ad); ia != nil {
			a.Stake = ia.Stake()
			for _, u := range ia.UnStakes() {
				a.Unstakes = append(a.Unstakes, slot{u.GetValue(), u.GetExpire()})
			}
			for _, d := range ia.Delegations() {
				a.Delegs = append(a.Delegs, vote{w.index(d.To()), d.Amount()})
			}
			for _, d := range ia.Bonds() {
				a.Bonds = append(a.Bonds, vote{w.index(d.To()), d.Amount()})
			}
			for _, u := range ia.Unbonds() {
				a.Unbonds = append(a.Unbonds, ubond{w.index(u.Address()), u.Value(), u.Expire()})
			}
			a.CDeleg, a.CBond, a.CUnbnd = ia.Delegating(), ia.Bond(), ia.Unbond()
		}
		if ps := st.GetPRepStatusByOwner(ad, false); ps != nil {
			switch ps.Status() {
			case icstate.NotReady:
				a.PStat = 0
			case icstate.Active:
				a.PStat = 1
			case icstate.Unregistered:
				a.PStat = 2
			default:
				a.PStat = 3
			}
			a.PDeleg, a.PBond = ps.Delegated(), ps.Bonded()
		}
		if pb := st.GetPRepBaseByOwner(ad, false); pb != nil {
			a.HasBase = true
			for _, b := range pb.BonderList() {
				a.Bonders = append(a.Bonders, w.index(b))
			}
		}
		s.A = append(s.A, a)
	}
	return s
}

func (a *asnap) coq() string {
	var sb strings.Builder
	sb.WriteString("(WA " + zs(a.Bal) + " " + zs(a.Stake) + " ")
	for _, u := range a.Unstakes {
		fmt.Fprintf(&sb, "(WS %s %d ", zs(u.V), u.E)
	}
	sb.WriteString("WSN" + strings.Repeat(")", len(a.Unstakes)) + " ")
	sb.WriteString(coqVotes(a.Delegs) + " " + coqVotes(a.Bonds) + " ")
	for _, u := range a.Unbonds {
		fmt.Fprintf(&sb, "(WU %d %s %d ", u.To, zs(u.V), u.E)
	}
	sb.WriteString("WUN" + strings.Repeat(")", len(a.Unbonds)) + " ")
	fmt.Fprintf(&sb, "%d %s %s %s)", a.PStat, zs(a.PDeleg), zs(a.PBond), coqNats(a.Bonders))
	return sb.String()
}

// coq prints the observation relative to ref (the previously printed one): only the
// accounts whose observable fields changed are listed
func (s *snap) coq(ref *snap) string {
	var sb strings.Builder
	sb.WriteString("(WObs ")
	n := 0
	for i := range s.A {
		c := s.A[i].coq()
		if ref != nil && ref.A[i].coq() == c {
			continue
		}
		fmt.Fprintf(&sb, "(WC %d %s ", i, c)
		n++
	}
	sb.WriteString("WCN" + strings.Repeat(")", n))
	fmt.Fprintf(&sb, " %d %s %s %s %s)", s.H, zs(s.Supply), zs(s.TStake), zs(s.TDeleg), zs(s.TBond))
	return sb.String()
}

// a key of the state without the height (for "rejected operations change nothing")
func (s *snap) keyNoHeight() string {
	c := *s
	c.H = 0
	return c.coq(nil) + c.SysBal.String()
}

func (w *world) emitOp(coq string, acc bool, obs *snap) {
	if w.noObs {
		return
	}
	o := "WNoObs"
	if obs != nil {
		o = obs.coq(w.lastObs)
		w.lastObs = obs
	}
	w.events = append(w.events, fmt.Sprintf("(WE %s %s %s", coq, hxlib.CoqBool(acc), o))
}

func (w *world) fail(format string, a ...interface{}) {
	msg := fmt.Sprintf(format, a...)
	if strings.Contains(msg, knownSubstring) {
		if len(w.known) < 3 {
			w.known = append(w.known, msg)
		}
		return
	}
	if len(w.other) < 5 {
		w.other = append(w.other, msg)
	}
}

// ---------------------------------------------------------------- building transactions

func hexInt(v *big.Int) *common.HexInt {
	h := new(common.HexInt)
	h.Set(v)
	return h
}

func (w *world) voteParam(vs []vote) []interface{} {
	p := make([]interface{}, len(vs))
	for i, v := range vs {
		p[i] = map[string]interface{}{"address": w.addrs[v.To], "value": hexInt(v.V)}
	}
	return p
}

func (w *world) buildTx(o *opRec) {
	sim := w.sim
	switch o.Kind {
	case "transfer":
		o.tx = sim.Transfer(w.addrs[o.A], w.addrs[o.B], o.Amt)
	case "stake":
		o.tx = sim.SetStake(w.addrs[o.A], o.Amt)
	case "deleg":
		ds, err := icstate.NewDelegations(w.voteParam(o.Votes), delegMax)
		if err != nil {
			o.preRej = true
			return
		}
		o.tx = sim.SetDelegation(w.addrs[o.A], ds)
	case "bond":
		bs, err := icstate.NewBonds(w.voteParam(o.Votes), w.sim.Revision().Value())
		if err != nil {
			o.preRej = true
			return
		}
		o.tx = sim.SetBond(w.addrs[o.A], bs)
	case "bonders":
		p := make([]interface{}, len(o.List))
		for i, b := range o.List {
			p[i] = w.addrs[b]
		}
		bl, err := icstate.NewBonderList(p)
		if err != nil {
			o.preRej = true
			return
		}
		o.tx = sim.SetBonderList(w.addrs[o.A], bl)
	case "register":
		o.tx = sim.RegisterPRep(w.addrs[o.A], prepInfo(o.A))
	case "unregister":
		o.tx = sim.UnregisterPRep(w.addrs[o.A])
	case "claim":
		o.tx = sim.ClaimIScore(w.addrs[o.A])
	}
}

// ---------------------------------------------------------------- one block

// runBlock executes the operations in one block, records the events and runs the oracle.
func (w *world) runBlock(ops []*opRec, withObs bool) bool {
	sim := w.sim
	st := icsim.VerifC34State(sim)
	pre := w.prev
	bh := sim.BlockHeight() + 1
	// who sits in the timers of this block before it runs
	usTimer := timerSet(st.GetUnstakingTimerSnapshot(bh))
	ubTimer := timerSet(st.GetUnbondingTimerSnapshot(bh))
	preIScore := map[int]*big.Int{}
	blk := icsim.NewBlock()
	for _, o := range ops {
		w.buildTx(o)
		if o.tx != nil {
			blk.AddTransaction(o.tx)
		}
		if o.Kind == "claim" {
			if _, ok := preIScore[o.A]; !ok {
				preIScore[o.A] = sim.QueryIScore(w.addrs[o.A])
			}
		}
	}
	var receipts []icsim.Receipt
	var err error
	if p := hxlib.Catch(func() {
		if w.issuing {
			receipts, err = icsim.VerifC34GoByBlockIssuing(sim, nil, blk)
		} else {
			receipts, err = sim.GoByBlock(nil, blk)
		}
	}); p != "" {
		w.fatal = "panic while executing block " + fmt.Sprint(bh) + ": " + p
		return false
	}
	if err != nil {
		w.fatal = fmt.Sprintf("block %d failed to execute: %v", bh, err)
		return false
	}
	// outcomes and step inputs
	lMin, lMax := bi(lockMinMult*termPeriod), bi(lockMaxMult*termPeriod)
	tsCur, supCur := new(big.Int).Set(pre.TStake), new(big.Int).Set(pre.Supply)
	stakeCur := map[int]*big.Int{}
	touched := map[int]bool{}
	k := 1
	allRejected := true
	if w.issuing {
		// the base transaction ran first: ICX issued to the treasury (ICXIssued event, 3rd data field)
		issue := new(big.Int)
		for _, ev := range receipts[0].Events() {
			if len(ev.Indexed) > 0 && string(ev.Indexed[0]) == "ICXIssued(int,int,int,int)" && len(ev.Data) == 4 {
				issue = intconv.BigIntSetBytes(new(big.Int), ev.Data[2])
			}
		}
		w.emitOp("(WIssue "+zs(issue)+")", true, nil)
		if issue.Sign() != 0 {
			supCur.Add(supCur, issue)
			touched[w.tre] = true
			allRejected = false
			if w.issued == nil {
				w.issued = new(big.Int)
			}
			w.issued.Add(w.issued, issue)
		}
	}
	for _, o := range ops {
		if o.tx != nil {
			rc := receipts[k]
			k++
			o.Accepted = rc.Status() == icsim.Success
			if o.Kind == "claim" {
				o.Amt = new(big.Int)
				if o.Accepted {
					found := false
					for _, ev := range rc.Events() {
						if len(ev.Indexed) > 0 && string(ev.Indexed[0]) == "IScoreClaimedV2(Address,int,int)" && len(ev.Data) == 2 {
							o.Amt = intconv.BigIntSetBytes(new(big.Int), ev.Data[1])
							found = true
						}
					}
					if !found {
						w.fail("claimIScore succeeded without an IScoreClaimedV2 event (account %d, block %d)", o.A, bh)
					}
				} else {
					o.Amt = new(big.Int).Div(preIScore[o.A], bi(icmodule.IScoreICXRatio))
				}
			}
		}
		switch o.Kind {
		case "stake":
			o.Lock = icstate.CalcUnstakeLockPeriod(lMin, lMax, tsCur, supCur)
			if o.Accepted {
				cur, ok := stakeCur[o.A]
				if !ok {
					cur = pre.A[o.A].Stake
				}
				tsCur.Add(tsCur, sub(o.Amt, cur))
				stakeCur[o.A] = o.Amt
			}
		case "register":
			if o.Accepted {
				supCur.Sub(supCur, regFee)
			}
		}
		touched[o.A] = true
		if o.Kind == "transfer" {
			touched[o.B] = true
		}
		if o.Kind == "claim" {
			touched[w.tre] = true
		}
		w.nOps++
		w.opKinds[o.Kind]++
		if o.Accepted {
			w.nAcc++
			allRejected = false
			switch o.Kind {
			case "deleg":
				w.delegOK++
			case "bond":
				w.bondOK++
			case "register":
				w.regOK++
			case "unregister":
				w.unregOK++
			case "claim":
				if o.Amt.Sign() > 0 {
					w.claims++
				}
			case "stake":
				if o.Amt.Cmp(pre.A[o.A].Stake) < 0 {
					w.stakeDec++
				}
			}
		} else {
			w.nRej++
		}
		w.emitOp(o.coq(), o.Accepted, nil)
	}
	post := w.observe()
	if withObs {
		w.emitOp("WEndBlock", true, post)
	} else {
		w.emitOp("WEndBlock", true, nil)
	}
	w.oracle(pre, post, bh, touched, usTimer, ubTimer, allRejected)
	w.prev = post
	return true
}

func timerSet(ts *icstate.TimerSnapshot) map[string]bool {
	m := map[string]bool{}
	if ts == nil {
		return m
	}
	for itr := ts.Iterator(); itr.Has(); itr.Next() {
		a, _ := itr.Get()
		m[icutils.ToKey(a)] = true
	}
	return m
}

// ---------------------------------------------------------------- direct oracle

func (w *world) oracle(pre, post *snap, bh int64, touched map[int]bool, usTimer, ubTimer map[string]bool, allRejected bool) {
	st := icsim.VerifC34State(w.sim)
	n := len(post.A)
	// (1) supply = balances + stake + unstaking
	total := new(big.Int).Set(post.SysBal)
	sumStake := new(big.Int)
	for _, a := range post.A {
		total.Add(total, a.maxStake())
		sumStake.Add(sumStake, a.Stake)
	}
	if total.Cmp(post.Supply) != 0 {
		w.fail("supply not conserved at block %d: totalSupply=%s but balances+stake+unstaking=%s (diff %s)",
			bh, post.Supply, total, sub(post.Supply, total))
	}
	// (3) totals
	if sumStake.Cmp(post.TStake) != 0 {
		w.fail("totalStake %s differs from the sum of stakes %s at block %d", post.TStake, sumStake, bh)
	}
	delegTo := make([]*big.Int, n)
	bondTo := make([]*big.Int, n)
	for i := range delegTo {
		delegTo[i], bondTo[i] = new(big.Int), new(big.Int)
	}
	for i, a := range post.A {
		// (2) voting power
		if a.using().Cmp(a.Stake) > 0 {
			w.fail("account %d uses more than its stake at block %d: delegated %s + bonded %s + unbonding %s > stake %s",
				i, bh, sumVotes(a.Delegs), sumVotes(a.Bonds), sumUbonds(a.Unbonds), a.Stake)
		}
		if a.CDeleg.Cmp(sumVotes(a.Delegs)) != 0 || a.CBond.Cmp(sumVotes(a.Bonds)) != 0 || a.CUnbnd.Cmp(sumUbonds(a.Unbonds)) != 0 {
			w.fail("account %d cached totals (deleg %s bond %s unbond %s) differ from its lists (%s %s %s) at block %d",
				i, a.CDeleg, a.CBond, a.CUnbnd, sumVotes(a.Delegs), sumVotes(a.Bonds), sumUbonds(a.Unbonds), bh)
		}
		if a.Bal.Sign() < 0 || a.Stake.Sign() < 0 {
			w.fail("account %d has a negative balance or stake at block %d", i, bh)
		}
		for _, d := range a.Delegs {
			if d.To < 0 || d.V.Sign() <= 0 {
				w.fail("account %d has a delegation to an unknown address or of non-positive amount at block %d", i, bh)
				continue
			}
			delegTo[d.To].Add(delegTo[d.To], d.V)
		}
		for _, d := range a.Bonds {
			if d.To < 0 || d.V.Sign() <= 0 {
				w.fail("account %d has a bond to an unknown address or of non-positive amount at block %d", i, bh)
				continue
			}
			bondTo[d.To].Add(bondTo[d.To], d.V)
		}
		// (4) unstake slots
		seen := map[int64]int{}
		for _, u := range a.Unstakes {
			seen[u.E]++
			if u.V.Sign() <= 0 {
				w.fail("account %d has an unstake slot of non-positive amount at block %d", i, bh)
			}
		}
		for e, c := range seen {
			if c >= 2 {
				w.sibling[i][e] = true
			}
		}
		for _, u := range a.Unstakes {
			inTimer := timerSet(st.GetUnstakingTimerSnapshot(u.E))[icutils.ToKey(w.addrs[i])]
			if u.E <= bh {
				if !inTimer && w.sibling[i][u.E] {
					w.fail("unstake slot overdue: account %d still holds slot (%s, expire %d) at block %d; "+
						"the account was dropped from the unstaking timer of height %d when a sibling slot with the same expire height was removed",
						i, u.V, u.E, bh, u.E)
				} else {
					w.fail("unstake slot not released at its expire height: account %d holds slot (%s, expire %d) at block %d (in timer: %v)",
						i, u.V, u.E, bh, inTimer)
				}
			} else if !inTimer && !w.sibling[i][u.E] {
				w.fail("pending unstake slot has no timer: account %d slot (%s, expire %d) at block %d", i, u.V, u.E, bh)
			}
		}
		for _, u := range a.Unbonds {
			if u.V.Sign() <= 0 || u.To < 0 {
				w.fail("account %d has an unbond of non-positive amount or unknown target at block %d", i, bh)
			}
			if u.E <= bh {
				w.fail("unbond not released at its expire height: account %d holds unbond (%s, expire %d) at block %d", i, u.V, u.E, bh)
			} else if !timerSet(st.GetUnbondingTimerSnapshot(u.E))[icutils.ToKey(w.addrs[i])] {
				w.fail("pending unbond has no timer: account %d unbond (%s, expire %d) at block %d", i, u.V, u.E, bh)
			}
			w.unbondsSeen++
		}
		// staked ICX leaves stake+unstaking only through a slot that is due now (never directly)
		{
			due := new(big.Int)
			if usTimer[icutils.ToKey(w.addrs[i])] {
				for _, u := range pre.A[i].Unstakes {
					if u.E == bh {
						due.Add(due, u.V)
					}
				}
			}
			before := add(pre.A[i].Stake, sumSlots(pre.A[i].Unstakes))
			after := add(a.Stake, sumSlots(a.Unstakes))
			if after.Cmp(sub(before, due)) < 0 {
				w.fail("stake released without waiting in an unstake slot: account %d stake+unstaking went from %s to %s in block %d, slots due: %s",
					i, before, after, bh, due)
			}
		}
		// bonded ICX leaves bond+unbonding (per P-Rep) only through an unbond that is due now
		{
			sumTo := func(s *asnap, dueOnly bool) map[int]*big.Int {
				m := map[int]*big.Int{}
				if !dueOnly {
					for _, b := range s.Bonds {
						if m[b.To] == nil {
							m[b.To] = new(big.Int)
						}
						m[b.To].Add(m[b.To], b.V)
					}
				}
				for _, u := range s.Unbonds {
					if dueOnly && u.E != bh {
						continue
					}
					if m[u.To] == nil {
						m[u.To] = new(big.Int)
					}
					m[u.To].Add(m[u.To], u.V)
				}
				return m
			}
			before, after, due := sumTo(&pre.A[i], false), sumTo(&a, false), sumTo(&pre.A[i], true)
			for p, b := range before {
				af, d := after[p], due[p]
				if af == nil {
					af = new(big.Int)
				}
				if d == nil || !ubTimer[icutils.ToKey(w.addrs[i])] {
					d = new(big.Int)
				}
				if af.Cmp(sub(b, d)) < 0 {
					w.fail("bond released without waiting in an unbond: account %d bond+unbonding towards P-Rep %d went from %s to %s in block %d, unbonds due: %s",
						i, p, b, af, bh, d)
				}
			}
		}
		// exactly-once payment: an account no transaction touched gains exactly the slots due now
		if !touched[i] {
			due := new(big.Int)
			cnt := 0
			if usTimer[icutils.ToKey(w.addrs[i])] {
				for _, u := range pre.A[i].Unstakes {
					if u.E == bh {
						due.Add(due, u.V)
						cnt++
					}
				}
			}
			if gain := sub(a.Bal, pre.A[i].Bal); gain.Cmp(due) != 0 {
				w.fail("account %d was not touched by a transaction in block %d but its balance changed by %s; unstake slots due: %s",
					i, bh, gain, due)
			}
			if len(a.Unstakes) != len(pre.A[i].Unstakes)-cnt {
				w.fail("account %d: %d unstake slots were due at block %d but the slot count went from %d to %d",
					i, cnt, bh, len(pre.A[i].Unstakes), len(a.Unstakes))
			}
			w.paidSlots += cnt
		}
	}
	actD, actB := new(big.Int), new(big.Int)
	for i, a := range post.A {
		if a.PDeleg.Cmp(delegTo[i]) != 0 {
			w.fail("P-Rep %d delegated=%s differs from the sum of delegations to it %s at block %d", i, a.PDeleg, delegTo[i], bh)
		}
		if a.PBond.Cmp(bondTo[i]) != 0 {
			w.fail("P-Rep %d bonded=%s differs from the sum of bonds to it %s at block %d", i, a.PBond, bondTo[i], bh)
		}
		if a.PStat == 1 {
			actD.Add(actD, a.PDeleg)
			actB.Add(actB, a.PBond)
		}
	}
	if actD.Cmp(post.TDeleg) != 0 {
		w.fail("totalDelegation %s differs from the delegation to active P-Reps %s at block %d", post.TDeleg, actD, bh)
	}
	if actB.Cmp(post.TBond) != 0 {
		w.fail("totalBond %s differs from the bond to active P-Reps %s at block %d", post.TBond, actB, bh)
	}
	// rejected operations leave the state unchanged (blocks in which nothing else happens)
	if allRejected && len(usTimer) == 0 && len(ubTimer) == 0 {
		if pre.keyNoHeight() != post.keyNoHeight() {
			w.fail("block %d contains only rejected operations and no due timer, but the state changed", bh)
		}
	}
}

// ---------------------------------------------------------------- setup

func (w *world) idle(n int, obsLast bool) bool {
	for i := 0; i < n; i++ {
		if !w.runBlock(nil, obsLast && i == n-1) {
			return false
		}
	}
	return true
}

func (w *world) setRevision(rev int) bool {
	// the revision transaction is not an operation of the model: a block without staking operations
	sim := w.sim
	pre := w.prev
	bh := sim.BlockHeight() + 1
	st := icsim.VerifC34State(sim)
	usTimer := timerSet(st.GetUnstakingTimerSnapshot(bh))
	ubTimer := timerSet(st.GetUnbondingTimerSnapshot(bh))
	rs, err := sim.GoBySetRevision(nil, gov, icmodule.ValueToRevision(rev))
	if err != nil || len(rs) < 2 || rs[1].Status() != icsim.Success {
		w.fatal = fmt.Sprintf("setRevision(%d) failed: %v", rev, err)
		return false
	}
	post := w.observe()
	w.emitOp("WEndBlock", true, post)
	w.oracle(pre, post, bh, map[int]bool{}, usTimer, ubTimer, false)
	w.prev = post
	return true
}

func (w *world) toTermEnd() bool {
	end := w.sim.TermSnapshot().GetEndHeight()
	return w.idle(int(end-w.sim.BlockHeight()), true)
}

// setup: revision 13, the first P-Reps register, stake, open their bonder list to themselves,
// bond and delegate to themselves (decentralisation needs power), then the latest revision.
func (w *world) setup() bool {
	if !w.setRevision(icmodule.Revision13) {
		return false
	}
	var ops []*opRec
	for i := 0; i < nSetupPReps; i++ {
		ops = append(ops, &opRec{Kind: "register", A: i})
	}
	if !w.runBlock(ops, true) {
		return false
	}
	ops = nil
	for i := 0; i < nSetupPReps; i++ {
		ops = append(ops, &opRec{Kind: "stake", A: i, Amt: mul(icx, 500000)})
		ops = append(ops, &opRec{Kind: "bonders", A: i, List: []int{i}})
	}
	if !w.runBlock(ops, true) {
		return false
	}
	ops = nil
	for i := 0; i < nSetupPReps; i++ {
		ops = append(ops, &opRec{Kind: "bond", A: i, Votes: []vote{{i, mul(icx, 50000)}}})
		ops = append(ops, &opRec{Kind: "deleg", A: i, Votes: []vote{{i, mul(icx, 300000)}}})
	}
	if !w.runBlock(ops, true) {
		return false
	}
	for _, o := range ops {
		if !o.Accepted {
			w.fatal = "setup operation rejected: " + o.coq()
			return false
		}
	}
	if !w.toTermEnd() {
		return false
	}
	if !w.setRevision(icmodule.LatestRevision) {
		return false
	}
	if !w.toTermEnd() {
		return false
	}
	if !w.sim.TermSnapshot().IsDecentralized() {
		w.fatal = "setup did not reach decentralisation"
		return false
	}
	return true
}

// ---------------------------------------------------------------- random operations

func (w *world) rndAmt(max *big.Int) *big.Int {
	// a random amount in [1, max] in units of 0.1 ICX where possible
	if max.Sign() <= 0 {
		return bi(1)
	}
	units := new(big.Int).Div(max, deci)
	if units.Sign() == 0 || w.r.Intn(10) == 0 {
		v := new(big.Int).Rand(w.r, max)
		return v.Add(v, bi(1))
	}
	u := new(big.Int).Rand(w.r, units)
	u.Add(u, bi(1))
	return u.Mul(u, deci)
}

func minBig(a, b *big.Int) *big.Int {
	if a.Cmp(b) < 0 {
		return a
	}
	return b
}

func (w *world) preps(activeOnly bool) []int {
	var l []int
	for i, a := range w.prev.A {
		if a.PStat == 1 || (!activeOnly && a.PStat == 2) {
			l = append(l, i)
		}
	}
	return l
}

func (w *world) genStake(a int) *opRec {
	p := &w.prev.A[a]
	using, maxS := p.using(), p.maxStake()
	var v *big.Int
	free := sub(p.Stake, using)
	room := sub(maxS, p.Stake)
	switch c := w.r.Intn(100); {
	case c < 35 && free.Sign() > 0:
		v = sub(p.Stake, w.rndAmt(minBig(free, mul(icx, 2000))))
	case c < 58 && room.Sign() > 0:
		v = add(p.Stake, w.rndAmt(minBig(room, mul(icx, 3000))))
	case c < 68 && len(p.Unstakes) > 0:
		// re-stake exactly the latest slot (or the two latest)
		v = add(p.Stake, p.Unstakes[len(p.Unstakes)-1].V)
		if len(p.Unstakes) > 1 && w.r.Intn(3) == 0 {
			v = add(v, p.Unstakes[len(p.Unstakes)-2].V)
		}
	case c < 73:
		v = new(big.Int).Set(using)
	case c < 76:
		v = sub(using, bi(1))
	case c < 81:
		v = new(big.Int).Set(maxS)
	case c < 85:
		v = add(maxS, bi(1))
	case c < 88:
		v = new(big.Int).Set(p.Stake)
	case c < 91:
		v = new(big.Int)
	case c < 93:
		v = mul(icx, -5)
	default:
		v = w.rndAmt(add(maxS, icx))
	}
	return &opRec{Kind: "stake", A: a, Amt: v}
}

func (w *world) genVotes(a int, forBond bool) []vote {
	p := &w.prev.A[a]
	var pool []int
	if forBond {
		for _, q := range w.preps(false) {
			for _, b := range w.prev.A[q].Bonders {
				if b == a {
					pool = append(pool, q)
				}
			}
		}
		if len(pool) == 0 || w.r.Intn(12) == 0 {
			pool = append(pool, w.r.Intn(len(w.addrs)))
		}
		// prefer an unregistered P-Rep that still lists this account as bonder (inactive target)
		for _, q := range pool {
			if w.prev.A[q].PStat == 2 && w.r.Intn(2) == 0 {
				pool = []int{q}
				break
			}
		}
	} else {
		pool = w.preps(true)
		if w.r.Intn(4) == 0 {
			pool = append(pool, w.r.Intn(len(w.addrs)))
		}
	}
	var avail *big.Int
	cur := p.Delegs
	if forBond {
		avail = sub(p.Stake, add(sumVotes(p.Delegs), sumUbonds(p.Unbonds)))
		cur = p.Bonds
	} else {
		avail = sub(p.Stake, add(sumVotes(p.Bonds), sumUbonds(p.Unbonds)))
	}
	var vs []vote
	switch c := w.r.Intn(100); {
	case c < 8:
		// empty list: remove everything
	case c < 30 && len(cur) > 0:
		// modify the current list: change one amount, maybe drop one
		for _, d := range cur {
			vs = append(vs, vote{d.To, new(big.Int).Set(d.V)})
		}
		k := w.r.Intn(len(vs))
		if w.r.Intn(2) == 0 {
			vs[k].V = w.rndAmt(vs[k].V)
		} else {
			vs[k].V = add(vs[k].V, w.rndAmt(mul(icx, 500)))
		}
		if len(vs) > 1 && w.r.Intn(3) == 0 {
			vs = vs[1:]
		}
	default:
		m := 1 + w.r.Intn(3)
		w.r.Shuffle(len(pool), func(i, j int) { pool[i], pool[j] = pool[j], pool[i] })
		left := new(big.Int).Set(avail)
		if w.r.Intn(3) > 0 && left.Sign() > 0 {
			left = w.rndAmt(left)
		}
		used := map[int]bool{}
		for _, t := range pool {
			if len(vs) >= m || used[t] {
				continue
			}
			used[t] = true
			var amt *big.Int
			if left.Sign() > 0 {
				amt = w.rndAmt(left)
			} else {
				amt = bi(0)
			}
			left = sub(left, amt)
			vs = append(vs, vote{t, amt})
		}
	}
	// malformed / boundary variants
	switch c := w.r.Intn(100); {
	case c < 4 && len(vs) > 0:
		vs = append(vs, vote{vs[0].To, bi(7)}) // duplicate target
	case c < 7 && len(vs) > 0:
		vs[w.r.Intn(len(vs))].V = mul(deci, -3) // negative amount
	case c < 10 && !forBond:
		for len(vs) <= delegMax { // too many delegations
			vs = append(vs, vote{(len(vs) * 3) % len(w.addrs), bi(int64(1 + len(vs)))})
		}
	case c < 14:
		vs = append(vs, vote{w.r.Intn(len(w.addrs)), bi(0)}) // zero entry (dropped, or a duplicate)
	case c < 20 && len(vs) > 0:
		// one more unit than the voting power allows
		sum := sumVotes(vs)
		k := w.r.Intn(len(vs))
		vs[k].V = add(vs[k].V, add(sub(avail, sum), bi(1)))
	case c < 26 && len(vs) > 0:
		// exactly the voting power
		sum := sumVotes(vs)
		k := w.r.Intn(len(vs))
		nv := add(vs[k].V, sub(avail, sum))
		if nv.Sign() > 0 {
			vs[k].V = nv
		}
	}
	return vs
}

func (w *world) genBonders(p int) *opRec {
	cur := w.prev.A[p].Bonders
	var l []int
	seen := map[int]bool{}
	for _, b := range cur {
		if w.r.Intn(5) > 0 { // mostly keep
			l = append(l, b)
			seen[b] = true
		}
	}
	for k := w.r.Intn(3); k > 0; k-- {
		b := w.r.Intn(len(w.addrs) - 1)
		if !seen[b] {
			l = append(l, b)
			seen[b] = true
		}
	}
	switch c := w.r.Intn(100); {
	case c < 5 && len(l) > 0:
		l = append(l, l[0]) // duplicate
	case c < 8:
		l = nil
		for i := 0; i <= bonderMax; i++ { // too many (needs > 10 distinct: wraps around with duplicates)
			l = append(l, i%(len(w.addrs)))
		}
	}
	return &opRec{Kind: "bonders", A: p, List: l}
}

func (w *world) genTransfer() *opRec {
	n := len(w.addrs)
	a, b := w.r.Intn(n), w.r.Intn(n)
	bal := w.prev.A[a].Bal
	var v *big.Int
	switch c := w.r.Intn(100); {
	case c < 8:
		v = add(bal, bi(1))
	case c < 12:
		v = mul(icx, -1)
	case c < 17:
		v = bi(0)
	case c < 22:
		b = a
		v = add(bal, mul(icx, int64(w.r.Intn(3))))
	case c < 27:
		v = new(big.Int).Set(bal)
	default:
		v = w.rndAmt(minBig(bal, mul(icx, 5000)))
	}
	return &opRec{Kind: "transfer", A: a, B: b, Amt: v}
}

func (w *world) genBlock() []*opRec {
	n := len(w.addrs)
	k := []int{0, 1, 1, 1, 2, 2, 2, 3, 3, 3, 4, 4, 5}[w.r.Intn(13)]
	staked := map[int]bool{}
	var ops []*opRec
	for len(ops) < k {
		a := w.r.Intn(n)
		switch c := w.r.Intn(100); {
		case c < 26:
			if staked[a] {
				continue
			}
			staked[a] = true
			ops = append(ops, w.genStake(a))
		case c < 33:
			// two decreases of one account in one block: both new slots get the same expire height
			// (only when both open a new slot, so that the state after the block shows the sibling)
			p := &w.prev.A[a]
			free := sub(p.Stake, p.using())
			if staked[a] || len(p.Unstakes)+2 > slotMax || free.Cmp(mul(deci, 4)) < 0 {
				continue
			}
			staked[a] = true
			d1 := w.rndAmt(new(big.Int).Div(free, bi(2)))
			d2 := w.rndAmt(new(big.Int).Div(free, bi(2)))
			if w.r.Intn(2) == 0 {
				d2 = d1
			}
			v1 := sub(p.Stake, d1)
			ops = append(ops, &opRec{Kind: "stake", A: a, Amt: v1}, &opRec{Kind: "stake", A: a, Amt: sub(v1, d2)})
			w.pairs++
		case c < 50:
			ops = append(ops, &opRec{Kind: "deleg", A: a, Votes: w.genVotes(a, false)})
		case c < 64:
			ops = append(ops, &opRec{Kind: "bond", A: a, Votes: w.genVotes(a, true)})
		case c < 76:
			ops = append(ops, w.genTransfer())
		case c < 84:
			ops = append(ops, &opRec{Kind: "claim", A: a})
		case c < 91:
			ps := w.preps(false)
			p := a
			if len(ps) > 0 && w.r.Intn(8) > 0 {
				p = ps[w.r.Intn(len(ps))]
			}
			ops = append(ops, w.genBonders(p))
		case c < 96:
			ops = append(ops, &opRec{Kind: "register", A: a})
		default:
			ps := w.preps(true)
			p := a
			if len(ps) > 4 && w.r.Intn(6) > 0 {
				p = ps[w.r.Intn(len(ps))]
			} else if w.prev.A[a].PStat == 1 {
				continue // keep enough active P-Reps for the terms to go on
			}
			ops = append(ops, &opRec{Kind: "unregister", A: p})
		}
	}
	return ops
}

// ---------------------------------------------------------------- histories

type histIn struct {
	T      string `json:"t"` // random | sibling
	Seed   int64  `json:"seed"`
	I      int    `json:"i"`
	Blocks int    `json:"blocks"`
}

func genesisBalances(r *rand.Rand, nAcct int) []*big.Int {
	bals := make([]*big.Int, nAcct+1)
	for i := 0; i < nAcct; i++ {
		switch {
		case i < nSetupPReps:
			bals[i] = mul(icx, 1_000_000)
		case r.Intn(6) == 0:
			bals[i] = mul(icx, int64(r.Intn(1500))) // may be unable to pay the registration fee
		default:
			bals[i] = add(mul(icx, int64(20_000+r.Intn(400_000))), bi(int64(r.Intn(1000))))
		}
	}
	bals[nAcct] = mul(icx, int64(r.Intn(3))*50) // treasury: sometimes empty, claims then fail
	return bals
}

func coqCase(w *world) string {
	var bs strings.Builder
	for _, b := range w.bals {
		bs.WriteString("(WZ " + zs(b) + " ")
	}
	bs.WriteString("WZN" + strings.Repeat(")", len(w.bals)))
	return fmt.Sprintf("(CHist %d %d %d %d %d %d %s %d %s\n%s\nWEN%s)%%Z",
		slotMax, unbondMax, unbondMult*termPeriod, delegMax, bondMax, bonderMax, regFee, w.tre,
		bs.String(), strings.Join(w.events, "\n"), strings.Repeat(")", len(w.events)))
}

func sub64(seed int64, label string, i int) *rand.Rand {
	return (&hxlib.Ctx{Seed: seed}).Sub(label, i)
}

func runRandom(in histIn, noObs bool) *world {
	log.GlobalLogger().SetLevel(log.FatalLevel)
	r := sub64(in.Seed, "c34-hist", in.I)
	nAcct := 7 + r.Intn(4) // 7..10 accounts + treasury
	bals := genesisBalances(r, nAcct)
	w, err := newWorld(r, nAcct, bals)
	if err != nil {
		return &world{fatal: "NewSimulator: " + err.Error()}
	}
	w.noObs = noObs
	w.issuing = in.I%2 == 1
	if !w.setup() {
		return w
	}
	for b := 0; b < in.Blocks; b++ {
		if !w.runBlock(w.genBlock(), true) {
			break
		}
	}
	return w
}

// the refutation witness of Prop_C34 (C34_unstake_once_refuted) on the implementation
func runSibling(in histIn, noObs bool) *world {
	log.GlobalLogger().SetLevel(log.FatalLevel)
	r := sub64(in.Seed, "c34-sibling", in.I)
	nAcct := 7
	bals := genesisBalances(r, nAcct)
	w, err := newWorld(r, nAcct, bals)
	if err != nil {
		return &world{fatal: "NewSimulator: " + err.Error()}
	}
	w.noObs = noObs
	if !w.setup() {
		return w
	}
	u := nSetupPReps // the first plain user
	st := minBig(w.prev.A[u].Bal, mul(icx, 1000))
	if st.Cmp(mul(icx, 100)) < 0 {
		u = 0
		st = mul(icx, 500000)
	}
	base := w.prev.A[u].Stake
	if u != 0 {
		if !w.runBlock([]*opRec{{Kind: "stake", A: u, Amt: st}}, true) {
			return w
		}
		base = st
	}
	d := mul(icx, 10)
	ok := w.runBlock([]*opRec{{Kind: "stake", A: u, Amt: sub(base, d)}, {Kind: "stake", A: u, Amt: sub(base, mul(d, 2))}}, true) &&
		w.runBlock([]*opRec{{Kind: "stake", A: u, Amt: sub(base, d)}}, true)
	w.pairs++
	for b := 0; ok && b < in.Blocks; b++ {
		ok = w.runBlock(nil, true)
	}
	return w
}

func runHist(in histIn, noObs bool) *world {
	if in.T == "sibling" {
		return runSibling(in, noObs)
	}
	return runRandom(in, noObs)
}

func verdict(w *world) string {
	if w.fatal != "" {
		return w.fatal
	}
	if len(w.other) > 0 {
		return strings.Join(w.other, " || ")
	}
	if len(w.known) > 0 {
		return w.known[0]
	}
	return ""
}

func gen(c *hxlib.Ctx) {
	type pending struct {
		cs    hxlib.Case
		known bool
	}
	var all []pending
	tot := map[string]int{}
	mk := func(in histIn) {
		var w *world
		if p := hxlib.Catch(func() { w = runHist(in, c.OracleOnly) }); p != "" {
			w = &world{fatal: "panic while running the history: " + p, opKinds: map[string]int{}}
		}
		msg := verdict(w)
		cs := hxlib.Case{Kind: in.T + "-history", Input: in, OracleErr: msg,
			Nontrivial: w.paidSlots > 0 && w.delegOK > 0 && w.bondOK > 0 && w.nRej > 0 && w.stakeDec > 0}
		if !c.OracleOnly && w.fatal == "" {
			cs.Coq = coqCase(w)
		}
		cs.Key = fmt.Sprintf("%s-%d-%d", in.T, in.Seed, in.I)
		all = append(all, pending{cs, msg != "" && len(w.other) == 0 && w.fatal == ""})
		tot["ops"] += w.nOps
		tot["accepted"] += w.nAcc
		tot["rejected"] += w.nRej
		tot["unstake slots paid (untouched accounts)"] += w.paidSlots
		tot["same-block double decreases"] += w.pairs
		tot["accepted stake decreases"] += w.stakeDec
		tot["accepted delegations"] += w.delegOK
		tot["accepted bonds"] += w.bondOK
		tot["registrations"] += w.regOK
		tot["unregistrations"] += w.unregOK
		tot["claims paying ICX"] += w.claims
		if len(w.known) > 0 {
			tot["histories hitting the known unstake-timer finding"]++
		}
		if w.issuing {
			tot["histories with an issuing base transaction"]++
			if w.issued != nil && w.issued.Sign() > 0 {
				tot["histories in which ICX was issued"]++
			}
		}
		for k, v := range w.opKinds {
			tot["op:"+k] += v
		}
	}
	mk(histIn{T: "sibling", Seed: c.Seed, I: 0, Blocks: 45})
	for i := 0; i < c.N(40); i++ {
		mk(histIn{T: "random", Seed: c.Seed, I: i, Blocks: 45 + (i%4)*5})
	}
	// cases whose oracle failure is not the known finding come first (hxlib keeps 20 failures)
	sort.SliceStable(all, func(i, j int) bool {
		fi := all[i].cs.OracleErr != "" && !all[i].known
		fj := all[j].cs.OracleErr != "" && !all[j].known
		return fi && !fj
	})
	for _, p := range all {
		c.Emit(p.cs)
	}
	keys := make([]string, 0, len(tot))
	for k := range tot {
		keys = append(keys, k)
	}
	sort.Strings(keys)
	for _, k := range keys {
		c.Note("%s = %d", k, tot[k])
	}
	c.Note("universe: 7-10 accounts + treasury built through icsim.NewSimulator at revision %d (own balances, own P-Reps); "+
		"config Rrep=%d (icsim default 0 makes the IISS2 calculator drop pre-decentralisation votes, see docs/notes/C34.md); "+
		"termPeriod=%d lock=%d..%d terms unbonding=%d term slotMax=%d unbondingMax=%d delegationSlotMax=%d",
		icmodule.LatestRevision, icmodule.DefaultRRep, termPeriod, lockMinMult, lockMaxMult, unbondMult, slotMax, unbondMax, delegMax)
	// canary: a correct short history whose last observation has a wrong balance
	if !c.OracleOnly {
		c.Emit(hxlib.Case{Kind: "canary", Canary: true, Coq: canary()})
	}
}

func canary() string {
	return fmt.Sprintf("(CHist %d %d %d %d %d %d 2000 1 (WZ 1000 (WZ 50 WZN)) "+
		"(WE (WSetStake 0 400 5) true WNoObs (WE WEndBlock true (WObs (WC 0 (WA 600 400 WSN WVN WVN WUN 0 0 0 WNN) WCN) 1 1050 400 0 0) "+
		"(WE (WSetStake 0 100 5) true WNoObs (WE WEndBlock true (WObs (WC 0 (WA 601 100 (WS 300 7 WSN) WVN WVN WUN 0 0 0 WNN) WCN) 2 1050 100 0 0) "+
		"WEN)))))%%Z", slotMax, unbondMax, unbondMult*termPeriod, delegMax, bondMax, bonderMax)
}

func replay(raw json.RawMessage) string {
	var in histIn
	if err := json.Unmarshal(raw, &in); err != nil {
		return "bad replay input: " + err.Error()
	}
	var w *world
	if p := hxlib.Catch(func() { w = runHist(in, true) }); p != "" {
		return "panic while running the history: " + p
	}
	return verdict(w)
}

func main() {
	hxlib.Main(hxlib.Spec{
		ID: "C34",
		Rule: "one case = one history on the icsim simulator at the latest revision: genesis with 7-10 accounts + treasury, setup (4 P-Reps register, stake, bond, delegate; decentralisation), " +
			"then 45-60 blocks of 0-5 random operations each (setStake incl. boundary values and same-block double decreases, setDelegation/setBond with valid, over-limit, duplicate, negative and too-long lists, " +
			"setBonderList, transfers, registerPRep, unregisterPRep, claimIScore), full observable state after every block; plus one scripted history replaying the Coq refutation witness; " +
			"non-trivial = the history has an accepted stake decrease, an unstake slot paid at expiry, an accepted delegation, an accepted bond and a rejected operation; distinct = distinct (seed, index)",
		Shard: 6,
		Gen:   gen, Replay: replay,
	})
}
