// c03: consensus/wal.go on real files vs Model_Wal.
//
// A history is a list of operations (append / flush / sync / shift / crash k /
// recover) executed from an empty directory on the real walWriter / walReader.
//
//   - flush   = "Sync() was called and its bufio flush reached the file, but the
//     crash hits before the fsync completed": the harness calls Sync() and
//     does NOT advance the durable size it tracks.
//   - crash k = the directory is copied as it is on disk WITHOUT closing the
//     writer (unflushed bufio bytes are lost), the tail segment of the copy is
//     truncated to durable+k, and the history continues on the copy.
//   - recover = what consensus.go does at start: OpenWALForRead, ReadBytes until
//     error, CloseAndRepair on Corrupted/UnexpectedEOF, then OpenWALForWrite.
//     A recover while the writer is running is a graceful restart (Close first).
//
// Observed per recover: payloads returned, class of the final error, exact bytes
// of every segment file after the repair.  Direct oracle (model independent):
// returned list is a prefix of the logical log and contains every record that was
// covered by a completed Sync/Shift/Close or returned by an earlier recovery.
package main

import (
	"bytes"
	"encoding/hex"
	"encoding/json"
	"fmt"
	"hash/crc32"
	"math/rand"
	"os"
	"path/filepath"
	"sort"
	"strconv"
	"strings"
	"time"

	"github.com/icon-project/goloop/consensus"
	"verif/harness/hxlib"
)

// ---------------------------------------------------------------- operations

type opJ struct {
	Op string `json:"op"`
	P  string `json:"p,omitempty"` // payload, hex
	G  uint32 `json:"g,omitempty"` // or: payload = lcgBytes(G, N)
	N  int    `json:"n,omitempty"`
	B  bool   `json:"big,omitempty"` // payload = bigBytes(G, N): a 4096-byte block repeated
	K  int64  `json:"k,omitempty"`
}

// lcgBytes is the payload generator shared with Run_C03.v (pg): xorshift32 started
// at seed|1, one byte (the low one) per step.  Payloads that are not printed
// literally are described by (seed, len) so that the Coq case files stay small.
func lcgBytes(seed uint32, n int) []byte {
	b := make([]byte, n)
	x := seed | 1
	for i := range b {
		x ^= x << 13
		x ^= x >> 17
		x ^= x << 5
		b[i] = byte(x)
	}
	return b
}

// bigBytes is pgb of Run_C03.v: the block lcgBytes(seed, 4096) repeated, n bytes.
func bigBytes(seed uint32, n int) []byte {
	blk := lcgBytes(seed, 4096)
	b := make([]byte, n)
	for i := 0; i < n; i += 4096 {
		copy(b[i:], blk)
	}
	return b
}

// Parsing and compiling literals dominates the Coq side, so generated payloads
// longer than opLitMax bytes are described by their LCG seed and observed byte
// strings longer than litMax bytes by (length, CRC-32C).
const (
	opLitMax = 4
	litMax   = 24
)

// byte string as a Coq term of type bytes
func coqLit(b []byte) string { return "(hx \"" + hex.EncodeToString(b) + "\")" }

// observed byte string: literal, or (length, CRC-32C by Go's hash/crc32) when long
func coqBlob(b []byte) string {
	if len(b) <= litMax {
		return "(Lit " + coqLit(b) + ")"
	}
	return fmt.Sprintf("(Dig %d %d)", len(b), crc32.Checksum(b, crc32.MakeTable(crc32.Castagnoli)))
}

type histIn struct {
	T    string `json:"t"` // "hist"
	Ops  []opJ  `json:"ops"`
	Note string `json:"note,omitempty"`
}

type fileJ struct {
	Idx uint64 `json:"idx"`
	B   string `json:"b"`
}
type diskIn struct {
	T     string  `json:"t"` // "disk"
	Files []fileJ `json:"files"`
}
type crcIn struct {
	T string `json:"t"` // "crc"
	B string `json:"b"`
}

func (o opJ) payload() []byte {
	if o.P == "" && o.N > 0 {
		if o.B {
			return bigBytes(o.G, o.N)
		}
		return lcgBytes(o.G, o.N)
	}
	b, _ := hex.DecodeString(o.P)
	return b
}

func opsCoq(ops []opJ) string {
	items := make([]string, len(ops))
	for i, o := range ops {
		switch o.Op {
		case "append":
			if o.P == "" && o.N > 0 && o.B {
				items[i] = fmt.Sprintf("Append (pgb %d %d)", o.G, o.N)
			} else if o.P == "" && o.N > 0 {
				items[i] = fmt.Sprintf("Append (pg %d %d)", o.G, o.N)
			} else {
				items[i] = "Append " + coqLit(o.payload())
			}
		case "flush":
			items[i] = "Flush"
		case "sync":
			items[i] = "Sync"
		case "shift":
			items[i] = "Shift"
		case "crash":
			items[i] = fmt.Sprintf("Crash %d%%nat", o.K)
		case "recover":
			items[i] = "Recover"
		}
	}
	return hxlib.CoqList(items)
}

// ---------------------------------------------------------------- files

type segFile struct {
	idx uint64
	b   []byte
}

const walName = "w"

func tmpBase() string {
	if d := os.Getenv("C03_TMP"); d != "" {
		return d
	}
	// real files either way; a memory-backed file system keeps fsync cheap
	if st, err := os.Stat("/dev/shm"); err == nil && st.IsDir() {
		if f, err := os.CreateTemp("/dev/shm", "c03probe"); err == nil {
			f.Close()
			os.Remove(f.Name())
			return "/dev/shm"
		}
	}
	return ""
}

var base = tmpBase()

func newDir() string {
	d, err := os.MkdirTemp(base, "c03-")
	if err != nil {
		panic(err)
	}
	return d
}

func listSegs(dir string) []segFile {
	ents, err := os.ReadDir(dir)
	if err != nil {
		return nil
	}
	var res []segFile
	for _, e := range ents {
		if !strings.HasPrefix(e.Name(), walName+"_") {
			continue
		}
		idx, err := strconv.ParseUint(e.Name()[len(walName)+1:], 10, 64)
		if err != nil {
			continue
		}
		b, _ := os.ReadFile(filepath.Join(dir, e.Name()))
		res = append(res, segFile{idx, b})
	}
	sort.Slice(res, func(i, j int) bool { return res[i].idx < res[j].idx })
	return res
}

func segName(dir string, idx uint64) string {
	return filepath.Join(dir, fmt.Sprintf("%s_%d", walName, idx))
}

func segsLit(fs []segFile) string {
	items := make([]string, len(fs))
	for i, f := range fs {
		items[i] = fmt.Sprintf("(%d, %s)", f.idx, coqLit(f.b))
	}
	return hxlib.CoqList(items)
}

func segsCoq(fs []segFile) string {
	items := make([]string, len(fs))
	for i, f := range fs {
		items[i] = fmt.Sprintf("(%d, %s)", f.idx, coqBlob(f.b))
	}
	return hxlib.CoqList(items)
}

// ---------------------------------------------------------------- world

type obsT struct {
	recs  [][]byte
	err   int // 0 EOF, 1 UnexpectedEOF, 2 Corrupted, 3 other
	files []segFile
}

func (o obsT) coq() string {
	rs := make([]string, len(o.recs))
	for i, r := range o.recs {
		rs[i] = coqBlob(r)
	}
	return fmt.Sprintf("(Obs %s %d %s)", hxlib.CoqList(rs), o.err, segsCoq(o.files))
}

var cfg = &consensus.WALConfig{
	FileLimit:            1 << 40, // housekeeping never shifts or deletes by itself
	TotalLimit:           1 << 41,
	HousekeepingInterval: time.Hour,
	SyncInterval:         time.Hour,
}

type world struct {
	dir     string
	w       consensus.WALWriter // nil: machine is down
	durable int64               // size of the tail file at the last completed fsync
	// direct-oracle bookkeeping
	logl   [][]byte // logical log
	dur    int      // leading records of logl that must survive a crash
	obs    []obsT
	oracle string // first violation of the property
	// generator aid: frame sizes appended since the durable point
	pending []int
}

func (wd *world) id() string { return filepath.Join(wd.dir, walName) }

func (wd *world) fail(format string, a ...interface{}) {
	if wd.oracle == "" {
		wd.oracle = fmt.Sprintf(format, a...)
	}
}

func newWorld() *world {
	wd := &world{dir: newDir()}
	w, err := consensus.OpenWALForWrite(wd.id(), cfg)
	if err != nil {
		wd.fail("OpenWALForWrite on an empty directory: %v", err)
		return wd
	}
	wd.w = w
	return wd
}

func (wd *world) discard() {
	if wd.w != nil {
		wd.w.Close()
		wd.w = nil
	}
	os.RemoveAll(wd.dir)
}

func (wd *world) tailIdx() (uint64, bool) {
	fs := listSegs(wd.dir)
	if len(fs) == 0 {
		return 0, false
	}
	return fs[len(fs)-1].idx, true
}

func (wd *world) tailSize() int64 {
	idx, ok := wd.tailIdx()
	if !ok {
		return 0
	}
	st, err := os.Stat(segName(wd.dir, idx))
	if err != nil {
		return 0
	}
	return st.Size()
}

// unsynced = bytes of the tail file beyond the durable size
func (wd *world) unsynced() int64 {
	u := wd.tailSize() - wd.durable
	if u < 0 {
		u = 0
	}
	return u
}

// crashCopy: the state of the directory after a machine crash that persisted k
// bytes of the unsynced part of the tail.  The writer of wd is left untouched.
func (wd *world) crashCopy(k int64) *world {
	nd := newDir()
	fs := listSegs(wd.dir)
	for i, f := range fs {
		b := f.b
		if i == len(fs)-1 {
			n := wd.durable + k
			if n < int64(len(b)) {
				b = b[:n]
			}
		}
		if err := os.WriteFile(segName(nd, f.idx), b, 0600); err != nil {
			panic(err)
		}
	}
	c := &world{dir: nd, durable: 0, dur: wd.dur, oracle: wd.oracle}
	c.logl = append([][]byte(nil), wd.logl...)
	c.obs = append([]obsT(nil), wd.obs...)
	return c
}

func classify(err error) int {
	switch {
	case consensus.IsEOF(err):
		return 0
	case consensus.IsCorruptedWAL(err):
		return 2
	case consensus.IsUnexpectedEOF(err):
		return 1
	}
	return 3
}

// recoverDir runs the caller's recovery pattern of consensus.go on a directory.
func recoverDir(id string) (recs [][]byte, cls int, problem string) {
	wr, err := consensus.OpenWALForRead(id)
	if err != nil {
		return nil, 3, fmt.Sprintf("OpenWALForRead failed: %v", err)
	}
	defer wr.Close()
	for {
		bs, err := wr.ReadBytes()
		if err == nil {
			recs = append(recs, append([]byte(nil), bs...))
			continue
		}
		cls = classify(err)
		switch cls {
		case 0:
		case 1, 2:
			if e := wr.CloseAndRepair(); e != nil {
				problem = fmt.Sprintf("CloseAndRepair failed: %v", e)
			}
		default:
			problem = fmt.Sprintf("ReadBytes returned an unclassified error: %v", err)
		}
		return
	}
}

func (wd *world) apply(o opJ) {
	switch o.Op {
	case "append":
		if wd.w == nil {
			return
		}
		p := o.payload()
		n, err := wd.w.WriteBytes(p)
		if err != nil || n != len(p)+8 {
			wd.fail("WriteBytes(%d bytes) = %d, %v", len(p), n, err)
		}
		wd.logl = append(wd.logl, p)
		wd.pending = append(wd.pending, len(p)+8)
	case "flush":
		if wd.w == nil {
			return
		}
		// Sync whose fsync is deemed not to have completed: durability not advanced
		if err := wd.w.Sync(); err != nil {
			wd.fail("Sync: %v", err)
		}
	case "sync":
		if wd.w == nil {
			return
		}
		if err := wd.w.Sync(); err != nil {
			wd.fail("Sync: %v", err)
		}
		wd.durable = wd.tailSize()
		wd.dur = len(wd.logl)
		wd.pending = nil
	case "shift":
		if wd.w == nil {
			return
		}
		sh, ok := wd.w.(interface{ Shift() error })
		if !ok {
			wd.fail("writer has no Shift method")
			return
		}
		if err := sh.Shift(); err != nil {
			wd.fail("Shift: %v", err)
		}
		wd.durable = wd.tailSize() // the new, empty tail
		wd.dur = len(wd.logl)
		wd.pending = nil
	case "crash":
		if wd.w == nil {
			return
		}
		c := wd.crashCopy(o.K)
		wd.w.Close() // flushes into the abandoned directory only
		os.RemoveAll(wd.dir)
		*wd = *c
	case "recover":
		if wd.w != nil { // graceful restart
			if err := wd.w.Close(); err != nil {
				wd.fail("Close: %v", err)
			}
			wd.w = nil
			wd.dur = len(wd.logl)
		}
		recs, cls, problem := recoverDir(wd.id())
		if problem != "" {
			wd.fail("recovery: %s", problem)
		}
		wd.obs = append(wd.obs, obsT{recs, cls, listSegs(wd.dir)})
		// ---- the property, checked directly ----
		for i, r := range recs {
			if i >= len(wd.logl) {
				wd.fail("recovery returned %d records but only %d were appended (extra record of %d bytes)", len(recs), len(wd.logl), len(r))
				break
			}
			if !bytes.Equal(r, wd.logl[i]) {
				wd.fail("recovery returned a record that was not appended at position %d (got %d bytes %s.., appended %d bytes %s..)",
					i, len(r), hx8(r), len(wd.logl[i]), hx8(wd.logl[i]))
				break
			}
		}
		if len(recs) < wd.dur {
			wd.fail("synced record lost: %d records were durable (covered by a completed Sync/Shift/Close or returned by an earlier recovery), recovery returned only %d (final error class %d)",
				wd.dur, len(recs), cls)
		}
		if len(recs) < len(wd.logl) {
			wd.logl = wd.logl[:len(recs)]
		}
		wd.dur = len(wd.logl)
		w, err := consensus.OpenWALForWrite(wd.id(), cfg)
		if err != nil {
			wd.fail("OpenWALForWrite after recovery: %v", err)
			return
		}
		wd.w = w
		wd.durable = wd.tailSize()
		wd.pending = nil
	}
}

func hx8(b []byte) string {
	if len(b) > 8 {
		b = b[:8]
	}
	return hex.EncodeToString(b)
}

// runLinear executes a history from an empty directory.
func runLinear(ops []opJ) (obs []obsT, final []segFile, oracle string) {
	var wd *world
	p := hxlib.Catch(func() {
		wd = newWorld()
		for _, o := range ops {
			wd.apply(o)
		}
		final = listSegs(wd.dir)
	})
	if wd != nil {
		obs, oracle = wd.obs, wd.oracle
		wd.discard()
	}
	if p != "" && oracle == "" {
		oracle = "panic: " + p
	}
	return
}

func histCase(kind string, ops []opJ, obs []obsT, final []segFile, oracle string, oracleOnly bool) hxlib.Case {
	c := hxlib.Case{Kind: kind, Input: histIn{T: "hist", Ops: ops}, OracleErr: oracle}
	nCrash, nRec, nApp := 0, 0, 0
	for _, o := range ops {
		switch o.Op {
		case "crash":
			nCrash++
		case "recover":
			nRec++
		case "append":
			nApp++
		}
	}
	c.Nontrivial = nRec > 0 && nApp > 0 && nCrash > 0
	os_ := make([]string, len(obs))
	for i, o := range obs {
		os_[i] = o.coq()
	}
	if !oracleOnly {
		c.Coq = fmt.Sprintf("(CHist %s %s %s)", opsCoq(ops), hxlib.CoqList(os_), segsCoq(final))
	}
	h := crc32.ChecksumIEEE([]byte(fmt.Sprint(ops)))
	c.Key = fmt.Sprintf("%08x-%d", h, len(ops))
	return c
}

// ---------------------------------------------------------------- generators

func randPayload(r *rand.Rand, n int) []byte {
	b := make([]byte, n)
	r.Read(b)
	return b
}

func appendOp(p []byte) opJ { return opJ{Op: "append", P: hex.EncodeToString(p)} }

// appendN: a random payload of n bytes; long ones are described by an LCG seed
func appendN(r *rand.Rand, n int) opJ {
	if n > opLitMax {
		return opJ{Op: "append", G: r.Uint32(), N: n}
	}
	return appendOp(randPayload(r, n))
}

type profile struct {
	name     string
	nOps     func(r *rand.Rand) int
	size     func(r *rand.Rand) int
	allK     int64 // enumerate every k when the unsynced length is at most this
	maxFan   int   // cap on side branches per crash point otherwise
	pShift   int   // per-mille
	pCrash   int
	pSync    int
	pFlush   int
	pRestart int
	fanLast  bool // side branches only at the final crash point
}

// candidate crash offsets inside the unsynced region of the tail
func candidateKs(r *rand.Rand, wd *world, pf profile) []int64 {
	u := wd.unsynced()
	set := map[int64]bool{0: true, u: true}
	if u <= pf.allK {
		for k := int64(0); k <= u; k++ {
			set[k] = true
		}
	} else {
		// frame boundaries of the records appended since the durable point
		off := int64(0)
		var bnd []int64
		for _, fl := range wd.pending {
			for _, d := range []int64{0, 1, 4, 7, 8, 9, 8 + int64(fl-8)/2, int64(fl) - 1} {
				bnd = append(bnd, off+d)
			}
			off += int64(fl)
		}
		r.Shuffle(len(bnd), func(i, j int) { bnd[i], bnd[j] = bnd[j], bnd[i] })
		// always keep some exactly-8-bytes-of-header cuts
		off = 0
		kept := 0
		for _, fl := range wd.pending {
			if off+8 <= u && fl > 8 && kept < 3 {
				set[off+8] = true
				kept++
			}
			off += int64(fl)
		}
		for _, k := range bnd {
			if len(set) >= pf.maxFan {
				break
			}
			if k >= 0 && k <= u {
				set[k] = true
			}
		}
		for i := 0; i < 3; i++ {
			set[r.Int63n(u+1)] = true
		}
	}
	var ks []int64
	for k := range set {
		ks = append(ks, k)
	}
	sort.Slice(ks, func(i, j int) bool { return ks[i] < ks[j] })
	return ks
}

func genHistory(c *hxlib.Ctx, r *rand.Rand, pf profile, forced []opJ) {
	var ops []opJ
	wd := newWorld()
	defer func() { wd.discard() }()
	emitted := false
	n := pf.nOps(r)
	do := func(o opJ) {
		ops = append(ops, o)
		wd.apply(o)
	}
	crashPoint := func(last bool) {
		ks := candidateKs(r, wd, pf)
		main := ks[r.Intn(len(ks))]
		for _, k := range ks {
			if k == main || (pf.fanLast && !last) || expired() {
				continue
			}
			br := wd.crashCopy(k)
			suffix := []opJ{{Op: "recover"}, appendN(r, pf.size(r)), {Op: "sync"},
				appendN(r, pf.size(r)), {Op: "flush"}}
			bops := append(append([]opJ(nil), ops...), opJ{Op: "crash", K: k})
			var final []segFile
			p := hxlib.Catch(func() {
				for _, o := range suffix {
					br.apply(o)
					bops = append(bops, o)
				}
				// second crash inside the branch, then the final recovery
				k2 := int64(0)
				if u := br.unsynced(); u > 0 {
					k2 = r.Int63n(u + 1)
				}
				o := opJ{Op: "crash", K: k2}
				br.apply(o)
				bops = append(bops, o)
				o = opJ{Op: "recover"}
				br.apply(o)
				bops = append(bops, o)
				final = listSegs(br.dir)
			})
			if p != "" {
				br.fail("panic: %s", p)
			}
			emit(histCase(pf.name+"-branch", bops, br.obs, final, br.oracle, c.OracleOnly))
			br.discard()
		}
		do(opJ{Op: "crash", K: main})
		do(opJ{Op: "recover"})
	}
	p := hxlib.Catch(func() {
		for _, o := range forced {
			if o.Op == "crash" {
				crashPoint(true)
			} else {
				do(o)
			}
		}
		for i := 0; i < n; i++ {
			x := r.Intn(1000)
			switch {
			case x < pf.pCrash:
				crashPoint(false)
			case x < pf.pCrash+pf.pShift:
				do(opJ{Op: "shift"})
			case x < pf.pCrash+pf.pShift+pf.pSync:
				do(opJ{Op: "sync"})
			case x < pf.pCrash+pf.pShift+pf.pSync+pf.pFlush:
				do(opJ{Op: "flush"})
			case x < pf.pCrash+pf.pShift+pf.pSync+pf.pFlush+pf.pRestart:
				do(opJ{Op: "recover"})
			default:
				do(appendN(r, pf.size(r)))
			}
		}
		// every history ends with a crash and a recovery
		if r.Intn(3) > 0 {
			do(opJ{Op: "flush"})
		}
		crashPoint(true)
		final := listSegs(wd.dir)
		emit(histCase(pf.name, ops, wd.obs, final, wd.oracle, c.OracleOnly))
		emitted = true
	})
	if p != "" && !emitted {
		wd.fail("panic: %s", p)
		emit(histCase(pf.name, ops, wd.obs, nil, wd.oracle, true))
	}
}

func genHuge(c *hxlib.Ctx, r *rand.Rand) {
	const mib = 1 << 20
	big := func(n int) opJ { return opJ{Op: "append", G: r.Uint32(), N: n, B: true} }
	over := func() int { // payload longer than 2 MiB
		if c.Scale > 1 && r.Intn(2) == 0 {
			return 2*mib + 1 + r.Intn(3*mib)
		}
		return 2*mib + 1 + r.Intn(64<<10)
	}
	hists := [][]opJ{
		// graceful restart
		{appendN(r, 1+r.Intn(20)), big(over()), appendN(r, r.Intn(20)), {Op: "sync"}, {Op: "recover"}},
		// crash with a torn small record behind the big one
		{appendN(r, r.Intn(20)), big(2*mib + 1), {Op: "sync"}, appendN(r, 9+r.Intn(20)), {Op: "flush"},
			{Op: "crash", K: int64(1 + r.Intn(16))}, {Op: "recover"}},
		// exactly 2 MiB (the largest length that is not above the segment limit), crash right after the sync
		{appendN(r, 1+r.Intn(20)), big(2 * mib), appendN(r, 3), {Op: "sync"}, {Op: "crash"}, {Op: "recover"}},
	}
	n := len(hists)
	if c.Scale > 1 {
		n += 5
	}
	for i := 0; i < n; i++ {
		if expired() {
			break
		}
		ops := hists[i%len(hists)]
		if i >= len(hists) { // thorough tier: further sizes, two recoveries
			ops = []opJ{appendN(r, r.Intn(40)), big(over()), {Op: "shift"}, appendN(r, r.Intn(40)), {Op: "sync"},
				{Op: "crash"}, {Op: "recover"}, big(mib + r.Intn(mib)), {Op: "flush"},
				{Op: "crash", K: int64(r.Intn(2 * mib))}, {Op: "recover"}}
		}
		obs, final, oracle := runLinear(ops)
		cs := histCase("huge", ops, obs, final, oracle, c.OracleOnly)
		weight[cs.Key] = 1 << 30
		emit(cs)
	}
}

func frameOf(p []byte) []byte {
	f := make([]byte, 8+len(p))
	f[0], f[1], f[2], f[3] = be32(crc32.Checksum(p, crc32.MakeTable(crc32.Castagnoli)))
	f[4], f[5], f[6], f[7] = be32(uint32(len(p)))
	copy(f[8:], p)
	return f
}
func be32(v uint32) (byte, byte, byte, byte) {
	return byte(v >> 24), byte(v >> 16), byte(v >> 8), byte(v)
}

func runDisk(files []segFile) (o obsT, problem string) {
	dir := newDir()
	defer os.RemoveAll(dir)
	for _, f := range files {
		if err := os.WriteFile(segName(dir, f.idx), f.b, 0600); err != nil {
			panic(err)
		}
	}
	p := hxlib.Catch(func() {
		var cls int
		var recs [][]byte
		recs, cls, problem = recoverDir(filepath.Join(dir, walName))
		o = obsT{recs, cls, listSegs(dir)}
	})
	if p != "" {
		problem = "panic: " + p
	}
	return
}

// malformed stream: valid frame sequences over 1..3 segments with one mutation
func genDisk(c *hxlib.Ctx, r *rand.Rand) {
	nseg := 1 + r.Intn(3)
	first := uint64(r.Intn(3))
	var files []segFile
	// positions of the two high bytes of every length field: never damaged, so that
	// ReadBytes does not allocate gigabytes (make([]byte, payloadLen) trusts the header)
	hiLen := map[[2]int]bool{}
	for s := 0; s < nseg; s++ {
		var b []byte
		for j := r.Intn(4); j > 0; j-- {
			hiLen[[2]int{s, len(b) + 4}] = true
			hiLen[[2]int{s, len(b) + 5}] = true
			b = append(b, frameOf(randPayload(r, []int{0, 1, 5, 17, 40}[r.Intn(5)]))...)
		}
		files = append(files, segFile{first + uint64(s), b})
	}
	// a header-shaped piece of garbage with a length field below 2^16
	garbage := func(n int) []byte {
		g := randPayload(r, n)
		if n > 4 {
			g[4] = 0
		}
		if n > 5 {
			g[5] = 0
		}
		return g
	}
	t := r.Intn(nseg)
	b := files[t].b
	kind := "disk-valid"
	switch r.Intn(8) {
	case 0:
	case 1:
		if len(b) > 0 {
			kind = "disk-flip"
			b = append([]byte(nil), b...)
			p := r.Intn(len(b))
			for hiLen[[2]int{t, p}] {
				p += 2
			}
			b[p] ^= byte(1 << uint(r.Intn(8)))
		}
	case 2:
		if len(b) > 0 {
			kind = "disk-cut"
			b = b[:r.Intn(len(b))]
		}
	case 3:
		kind = "disk-garbage"
		b = append(append([]byte(nil), b...), garbage(1+r.Intn(20))...)
	case 4:
		kind = "disk-zero-header" // eight zero bytes are a valid empty record (crc32c("") = 0)
		b = append(append([]byte(nil), b...), make([]byte, 8+r.Intn(3))...)
	case 5:
		kind = "disk-biglen"
		h := []byte{1, 2, 3, 4, 0, byte(r.Intn(2)), byte(r.Intn(256)), byte(r.Intn(256))}
		b = append(append([]byte(nil), b...), h...)
		b = append(b, randPayload(r, r.Intn(12))...)
	case 6:
		kind = "disk-header-only"
		f := frameOf(randPayload(r, 1+r.Intn(9)))
		b = append(append([]byte(nil), b...), f[:8]...)
	default:
		kind = "disk-dup-tail" // a torn copy of the first bytes of the segment
		if len(b) > 3 {
			b = append(append([]byte(nil), b...), b[:1+r.Intn(len(b)-1)]...)
		}
	}
	files[t].b = b
	if !lengthsSmall(files) {
		// a misaligned header whose length field is huge: ReadBytes would allocate it
		// (make([]byte, payloadLen) trusts the header); skipped to keep the run cheap
		return
	}
	o, problem := runDisk(files)
	in := diskIn{T: "disk"}
	for _, f := range files {
		in.Files = append(in.Files, fileJ{f.idx, hex.EncodeToString(f.b)})
	}
	cs := hxlib.Case{Kind: kind, Input: in, Nontrivial: kind != "disk-valid"}
	if strings.HasPrefix(problem, "panic") {
		cs.OracleErr = "recovery of a damaged directory panicked: " + problem
	}
	if !c.OracleOnly {
		cs.Coq = fmt.Sprintf("(CDisk %s %s)", segsLit(files), o.coq())
	}
	emit(cs)
}

// lengthsSmall walks the concatenated segments the way the reader does and reports
// whether every header it would interpret announces fewer than 2^20 bytes.
func lengthsSmall(files []segFile) bool {
	var s []byte
	for _, f := range files {
		s = append(s, f.b...)
	}
	tab := crc32.MakeTable(crc32.Castagnoli)
	for len(s) >= 8 {
		n := int(uint32(s[4])<<24 | uint32(s[5])<<16 | uint32(s[6])<<8 | uint32(s[7]))
		if n >= 1<<20 {
			return false
		}
		if len(s)-8 < n {
			return true
		}
		crc := uint32(s[0])<<24 | uint32(s[1])<<16 | uint32(s[2])<<8 | uint32(s[3])
		if crc32.Checksum(s[8:8+n], tab) != crc {
			return true
		}
		s = s[8+n:]
	}
	return true
}

func corpusDir() string {
	if d := os.Getenv("C03_CORPUS"); d != "" {
		return d
	}
	wd, _ := os.Getwd()
	for d := wd; d != "/" && d != "."; d = filepath.Dir(d) {
		p := filepath.Join(d, "corpus", "C03")
		if st, err := os.Stat(p); err == nil && st.IsDir() {
			return p
		}
	}
	return "/verif/corpus/C03"
}

func genCorpus(c *hxlib.Ctx) {
	dir := corpusDir()
	names, _ := filepath.Glob(filepath.Join(dir, "*.json"))
	sort.Strings(names)
	if len(names) == 0 {
		c.Note("no corpus histories found in %s", dir)
	}
	for _, n := range names {
		b, err := os.ReadFile(n)
		if err != nil {
			continue
		}
		var doc struct {
			Input histIn `json:"input"`
		}
		if err := json.Unmarshal(b, &doc); err != nil || doc.Input.T != "hist" {
			c.Note("corpus file %s skipped: %v", n, err)
			continue
		}
		obs, final, oracle := runLinear(doc.Input.Ops)
		if oracle != "" {
			oracle = "corpus history " + filepath.Base(n) + ": " + oracle
		}
		emit(histCase("corpus", doc.Input.Ops, obs, final, oracle, c.OracleOnly))
	}
}

func small(r *rand.Rand) int {
	switch r.Intn(8) {
	case 0, 1:
		return 0
	case 2:
		return 1
	default:
		return r.Intn(25)
	}
}

// cases are queued and handed to hxlib in an order that spreads the heavy ones
// (long histories) evenly over the Coq shards, which are evaluated in parallel
var queue []hxlib.Case
var weight = map[string]int{} // Case.Key -> evaluation weight when it is not the text length

func emit(cs hxlib.Case) { queue = append(queue, cs) }

func caseWeight(cs hxlib.Case) int {
	if w, ok := weight[cs.Key]; ok {
		return w
	}
	return len(cs.Coq)
}

func flushQueue(c *hxlib.Ctx, shard int) {
	// corpus histories (regressions of repaired defects) are reported first
	var rest []hxlib.Case
	nCorpus := 0
	for _, cs := range queue {
		if cs.Kind == "corpus" {
			nCorpus++
			c.Emit(cs)
		} else {
			rest = append(rest, cs)
		}
	}
	queue = rest
	sort.SliceStable(queue, func(i, j int) bool { return caseWeight(queue[i]) > caseWeight(queue[j]) })
	// buckets = the shards hxlib will cut (it chunks the emitted sequence by `shard`);
	// the corpus cases already emitted occupy the head of shard 0
	total := len(queue) + nCorpus
	nb := (total + shard - 1) / shard
	if nb == 0 {
		return
	}
	buckets := make([][]hxlib.Case, nb)
	capOf := func(k int) int { // every shard but the last is full
		n := shard
		if k == nb-1 {
			n = total - (nb-1)*shard
		}
		if k == 0 {
			n -= nCorpus
		}
		return n
	}
	k, dir := 0, 1
	for _, cs := range queue {
		for tries := 0; len(buckets[k]) >= capOf(k) && tries < 2*nb; tries++ {
			k += dir
			if k == nb {
				k, dir = nb-1, -1
			} else if k < 0 {
				k, dir = 0, 1
			}
		}
		buckets[k] = append(buckets[k], cs)
		k += dir // snake order
		if k == nb {
			k, dir = nb-1, -1
		} else if k < 0 {
			k, dir = 0, 1
		}
	}
	for _, b := range buckets {
		for _, cs := range b {
			c.Emit(cs)
		}
	}
	queue = nil
}

const shardSize = 120

// Generation stops early (keeping what was found) when it runs far beyond its
// normal few seconds: a broken reader may interpret payload bytes as a header and
// allocate gigabytes per ReadBytes call (make([]byte, payloadLen)).
var deadline time.Time

func expired() bool { return !deadline.IsZero() && time.Now().After(deadline) }

func gen(c *hxlib.Ctx) {
	r := c.Rand
	deadline = time.Now().Add(time.Duration(150*c.Scale) * time.Second)
	genCorpus(c)

	short := profile{name: "short", nOps: func(r *rand.Rand) int { return 3 + r.Intn(6) }, size: small,
		allK: 90, maxFan: 14, pShift: 90, pCrash: 60, pSync: 200, pFlush: 150, pRestart: 30}
	shifty := profile{name: "shift", nOps: func(r *rand.Rand) int { return 4 + r.Intn(6) }, size: small,
		allK: 60, maxFan: 12, pShift: 330, pCrash: 70, pSync: 80, pFlush: 150, pRestart: 30}
	long := profile{name: "long", fanLast: true, nOps: func(r *rand.Rand) int { return 10 + r.Intn(16) },
		size: func(r *rand.Rand) int {
			switch r.Intn(12) {
			case 0:
				return 0
			case 1:
				return 3000 + r.Intn(6000) // larger than the bufio buffer
			case 2, 3:
				return 300 + r.Intn(900)
			case 4:
				return []int{4087, 4088, 4089, 4096, 8184}[r.Intn(5)] // frame = buffer size +-1
			default:
				return r.Intn(120)
			}
		},
		allK: 24, maxFan: 8, pShift: 60, pCrash: 90, pSync: 120, pFlush: 40, pRestart: 20}

	t0 := time.Now()
	lap := func(what string) {
		if os.Getenv("C03_TIMING") != "" {
			fmt.Fprintf(os.Stderr, "%s: %v\n", what, time.Since(t0))
		}
		t0 = time.Now()
	}
	for i := 0; i < c.N(48); i++ {
		if expired() {
			break
		}
		genHistory(c, r, short, nil)
	}
	lap("short")
	// crash right after Shift with a partial first record in the new segment,
	// also after two Shifts in a row (empty middle segment)
	for i := 0; i < c.N(12); i++ {
		if expired() {
			break
		}
		forced := []opJ{appendN(r, small(r)), {Op: "sync"}, {Op: "shift"}}
		if i%3 == 0 {
			forced = append(forced, opJ{Op: "shift"})
		}
		forced = append(forced, appendN(r, 1+r.Intn(20)), opJ{Op: "flush"}, opJ{Op: "crash"})
		genHistory(c, r, shifty, forced)
	}
	for i := 0; i < c.N(12); i++ {
		if expired() {
			break
		}
		genHistory(c, r, shifty, nil)
	}
	lap("shift")
	for i := 0; i < c.N(18); i++ {
		if expired() {
			break
		}
		genHistory(c, r, long, nil)
	}
	lap("long")
	// the buffer exactly full / one byte over, crash without any flush
	for i := 0; i < c.N(4); i++ {
		if expired() {
			break
		}
		var forced []opJ
		forced = append(forced, appendN(r, r.Intn(50)), opJ{Op: "sync"})
		for _, n := range [][]int{{4088, 1}, {2000, 2080, 5}, {4089}, {100, 4500}, {4000, 80, 9000}}[i%5] {
			forced = append(forced, appendN(r, n))
		}
		forced = append(forced, opJ{Op: "crash"})
		genHistory(c, r, long, forced)
	}
	// records of megabytes: larger than the default segment limit (2 MiB), one exactly
	// at it; synced, then recovered gracefully and after a crash.  Observed through
	// (length, CRC-32C) digests; quick tier stays close to 2 MiB, thorough goes to 5 MiB.
	genHuge(c, r)
	lap("bufio")
	for i := 0; i < c.N(300); i++ {
		if expired() {
			break
		}
		genDisk(c, r)
	}
	lap("disk")
	// lib/Crc32c against Go's crc32 (Castagnoli)
	tab := crc32.MakeTable(crc32.Castagnoli)
	for i := 0; i < c.N(120); i++ {
		if expired() {
			break
		}
		n := []int{0, 1, 2, 3, 4, 7, 8, 9, 31, 32, 33, 255, 256, 257}[r.Intn(14)]
		if r.Intn(3) == 0 {
			n = r.Intn(700)
		}
		b := randPayload(r, n)
		if r.Intn(6) == 0 {
			for j := range b {
				b[j] = []byte{0, 0xff}[r.Intn(2)]
			}
		}
		cs := hxlib.Case{Kind: "crc", Input: crcIn{T: "crc", B: hex.EncodeToString(b)}, Nontrivial: n > 0}
		if !c.OracleOnly {
			cs.Coq = fmt.Sprintf("(CCrc %s %d)", coqLit(b), crc32.Checksum(b, tab))
		}
		emit(cs)
	}
	if expired() {
		c.Note("generation stopped at its time budget; %d cases kept", len(queue))
	}
	flushQueue(c, shardSize)
	// canaries: wrong observations the model must flag
	p1, p2 := []byte{1, 2, 3}, []byte{9, 8}
	f1 := frameOf(p1)
	c.Emit(hxlib.Case{Kind: "canary", Canary: true, // a synced record missing from the observation
		Coq: fmt.Sprintf("(CHist %s [(Obs [] 0 [(0, %s)])] [(0, %s)])",
			opsCoq([]opJ{appendOp(p1), {Op: "sync"}, appendOp(p2), {Op: "crash"}, {Op: "recover"}}),
			coqBlob(f1), coqBlob(f1))})
	c.Emit(hxlib.Case{Kind: "canary", Canary: true, // header-only tail observed as a clean EOF (pre-fix behaviour)
		Coq: fmt.Sprintf("(CDisk [(0, %s)] (Obs [%s] 0 [(0, %s)]))",
			coqLit(append(append([]byte(nil), f1...), frameOf(p2)[:8]...)), coqBlob(p1),
			coqBlob(append(append([]byte(nil), f1...), frameOf(p2)[:8]...)))})
	// a digest observation with a wrong checksum
	big := lcgBytes(7, 300)
	c.Emit(hxlib.Case{Kind: "canary", Canary: true,
		Coq: fmt.Sprintf("(CHist [Append (pg 7 300); Sync; Recover] [(Obs [(Dig 300 %d)] 0 [(0, (Dig 308 %d))])] [(0, (Dig 308 %d))])",
			crc32.Checksum(big, tab)+1, crc32.Checksum(frameOf(big), tab), crc32.Checksum(frameOf(big), tab))})
	c.Emit(hxlib.Case{Kind: "canary", Canary: true, Coq: "(CCrc (hx \"313233\") 0)"})
}

func replay(raw json.RawMessage) string {
	var t struct {
		T string `json:"t"`
	}
	if err := json.Unmarshal(raw, &t); err != nil {
		return "bad replay input: " + err.Error()
	}
	switch t.T {
	case "hist":
		var in histIn
		if err := json.Unmarshal(raw, &in); err != nil {
			return "bad replay input: " + err.Error()
		}
		_, _, oracle := runLinear(in.Ops)
		return oracle
	case "disk":
		var in diskIn
		json.Unmarshal(raw, &in)
		var files []segFile
		for _, f := range in.Files {
			b, _ := hex.DecodeString(f.B)
			files = append(files, segFile{f.Idx, b})
		}
		_, problem := runDisk(files)
		if strings.HasPrefix(problem, "panic") {
			return problem
		}
		return ""
	case "crc":
		return ""
	}
	return "unknown case type " + t.T
}

func main() {
	hxlib.Main(hxlib.Spec{
		ID: "C03",
		Rule: "histories of append/flush/sync/shift/crash/recover run on real segment files from an empty directory (corpus histories first); " +
			"at every crash point the on-disk directory is copied without closing the writer and the tail is cut at durable+k for every k of the unsynced region (short histories) " +
			"or at frame-boundary offsets +0,1,4,7,8,9,mid,end-1 plus random k (long histories, payloads up to 9000 bytes overflowing the 4096-byte bufio buffer, zero-length payloads); " +
			"every side branch continues recover/append/sync/append/flush/crash/recover; plus damaged directories (bit flip, cut, garbage, zero header, big length, header only) and CRC-32C vectors; " +
			"non-trivial = a history with at least one append, one crash and one recovery, a damaged directory, a non-empty CRC input; distinct = distinct operation list",
		Preamble: "From Goloop Require Import lib.Bytes Model_Wal.\nFrom GoloopRun Require Import Run_C03.",
		Shard:    shardSize,
		Gen:      gen,
		Replay:   replay,
	})
}
