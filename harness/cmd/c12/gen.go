package main

import (
	"encoding/base64"
	"encoding/json"
	"fmt"
	"math/big"
	"math/rand"
	"sort"
	"strconv"
	"strings"

	"github.com/icon-project/goloop/common/crypto"
	"github.com/icon-project/goloop/common/wallet"
	"github.com/icon-project/goloop/module"
)

// ---------- deterministic wallets ----------

func newWallet(r *rand.Rand) module.Wallet {
	for {
		b := make([]byte, 32)
		r.Read(b)
		sk, err := crypto.ParsePrivateKey(b)
		if err != nil {
			continue
		}
		w, err := wallet.NewFromPrivateKey(sk)
		if err == nil {
			return w
		}
	}
}

// ---------- random JSON values ----------

var strAlphabet = []string{"a", "b", "Z", "0", "1", "x", ".", ".", "\\", "\\", "{", "}", "[", "]", " ", "\"", "/", "-", "_",
	"\n", "\t", "é", "中", "<", "&", "\\0", "0x", "null"}

func randStr(r *rand.Rand) string {
	switch r.Intn(12) {
	case 0:
		return ""
	case 1:
		return "0x" + strconv.FormatInt(r.Int63n(1<<40), 16)
	case 2:
		return []string{"\\0", "[]", "{}", ".", "\\", "[a]", "{a.b}", "a.b", "\\.", "..", "]", "}"}[r.Intn(12)]
	}
	n := 1 + r.Intn(6)
	var sb strings.Builder
	for i := 0; i < n; i++ {
		sb.WriteString(strAlphabet[r.Intn(len(strAlphabet))])
	}
	return sb.String()
}

// kinds: 0 = ICON kinds only (null, string, list, dict); 1 = also numbers; 2 = also bools
func randValue(r *rand.Rand, depth, kinds int) interface{} {
	k := r.Intn(10)
	if depth <= 0 && k >= 6 {
		k = r.Intn(6)
	}
	switch {
	case k == 0:
		return nil
	case k <= 4:
		return randStr(r)
	case k == 5:
		if kinds >= 2 && r.Intn(3) == 0 {
			return r.Intn(2) == 0
		}
		if kinds >= 1 {
			switch r.Intn(4) {
			case 0:
				return float64(r.Intn(100))
			case 1:
				return -float64(r.Int63n(1 << 50))
			case 2:
				return float64(r.Intn(1000)) + 0.5
			default:
				return float64(r.Int63n(1 << 52))
			}
		}
		return randStr(r)
	case k <= 7:
		n := r.Intn(4)
		l := make([]interface{}, 0, n+1)
		if r.Intn(5) == 0 {
			l = append(l, "") // leading empty string
		}
		for i := 0; i < n; i++ {
			l = append(l, randValue(r, depth-1, kinds))
		}
		return l
	default:
		n := r.Intn(4)
		m := map[string]interface{}{}
		for i := 0; i < n; i++ {
			m[randStr(r)] = randValue(r, depth-1, kinds)
		}
		return m
	}
}

// ---------- JSON text with ordering / white space / escape variants ----------

type textStyle struct {
	Shuffle bool
	Spaces  bool
	UEscape bool
}

func ws(r *rand.Rand, st textStyle) string {
	if !st.Spaces {
		return ""
	}
	return []string{"", " ", "  ", "\n", "\t", " \r\n "}[r.Intn(6)]
}

func encString(s string, r *rand.Rand, st textStyle) string {
	if st.UEscape && len(s) > 0 {
		var sb strings.Builder
		sb.WriteByte('"')
		for _, c := range s {
			if c < 0x80 && (c < 0x20 || c == '"' || c == '\\' || r.Intn(3) == 0) {
				fmt.Fprintf(&sb, "\\u%04x", c)
			} else if c < 0x10000 && c >= 0x80 && r.Intn(2) == 0 {
				fmt.Fprintf(&sb, "\\u%04X", c)
			} else {
				sb.WriteRune(c)
			}
		}
		sb.WriteByte('"')
		return sb.String()
	}
	b, _ := json.Marshal(s)
	return string(b)
}

func encJSON(v interface{}, r *rand.Rand, st textStyle) string {
	switch x := v.(type) {
	case nil:
		return "null"
	case string:
		return encString(x, r, st)
	case bool:
		if x {
			return "true"
		}
		return "false"
	case float64:
		return strconv.FormatFloat(x, 'f', -1, 64)
	case json.Number:
		return string(x)
	case []interface{}:
		parts := make([]string, len(x))
		for i, e := range x {
			parts[i] = ws(r, st) + encJSON(e, r, st) + ws(r, st)
		}
		return "[" + strings.Join(parts, ",") + ws(r, st) + "]"
	case map[string]interface{}:
		keys := make([]string, 0, len(x))
		for k := range x {
			keys = append(keys, k)
		}
		sort.Strings(keys)
		if st.Shuffle {
			r.Shuffle(len(keys), func(i, j int) { keys[i], keys[j] = keys[j], keys[i] })
		}
		parts := make([]string, len(keys))
		for i, k := range keys {
			parts[i] = ws(r, st) + encString(k, r, st) + ws(r, st) + ":" + ws(r, st) + encJSON(x[k], r, st) + ws(r, st)
		}
		return "{" + strings.Join(parts, ",") + ws(r, st) + "}"
	}
	panic(fmt.Sprintf("encJSON %T", v))
}

// ---------- transaction specifications ----------

type txSpec struct {
	W         module.Wallet
	From, To  []byte // 21 bytes
	Value     *big.Int
	StepLimit *big.Int
	Timestamp int64
	NID       *int64
	Nonce     *big.Int
	DataType  *string
	HasData   bool
	Data      interface{}
	Extra     map[string]interface{}
}

func (s *txSpec) clone() *txSpec {
	c := *s
	return &c
}

func (s *txSpec) vals() *fieldVals {
	return &fieldVals{From: s.From, To: s.To, Value: s.Value, StepLimit: s.StepLimit, Timestamp: s.Timestamp,
		NID: s.NID, Nonce: s.Nonce, DataType: s.DataType, HasData: s.HasData, Data: s.Data}
}

func randBig(r *rand.Rand) *big.Int {
	switch r.Intn(8) {
	case 0:
		return big.NewInt(0)
	case 1:
		return big.NewInt(int64(r.Intn(300)))
	case 2:
		return new(big.Int).Lsh(big.NewInt(1), uint(8*(1+r.Intn(12)))) // 256^k
	case 3:
		v := new(big.Int).Lsh(big.NewInt(1), uint(8*(1+r.Intn(12))-1))
		return v.Sub(v, big.NewInt(int64(r.Intn(2))))
	case 4:
		b := make([]byte, 1+r.Intn(20))
		r.Read(b)
		return new(big.Int).SetBytes(b)
	default:
		return big.NewInt(r.Int63())
	}
}

func randAddr(r *rand.Rand) []byte {
	a := make([]byte, 21)
	a[0] = byte(r.Intn(2))
	switch r.Intn(4) {
	case 0:
		a[1+r.Intn(20)] = byte(r.Intn(256))
	case 1:
		r.Read(a[11:])
	default:
		r.Read(a[1:])
	}
	return a
}

func randSpec(r *rand.Rand, w module.Wallet, kinds int) *txSpec {
	s := &txSpec{W: w, From: append([]byte{}, w.Address().Bytes()...), To: randAddr(r),
		StepLimit: randBig(r), Timestamp: r.Int63n(1 << 52)}
	if r.Intn(4) > 0 {
		s.Value = randBig(r)
	}
	if r.Intn(3) > 0 {
		v := int64(r.Intn(5))
		if r.Intn(4) == 0 {
			v = r.Int63()
		}
		s.NID = &v
	}
	if r.Intn(2) == 0 {
		s.Nonce = randBig(r)
	}
	switch r.Intn(6) {
	case 0, 1:
	case 2:
		dt := "message"
		s.DataType = &dt
		s.HasData, s.Data = true, "0x"+strconv.FormatInt(r.Int63(), 16)
	case 3:
		dt := "call"
		s.DataType = &dt
		s.HasData = true
		s.Data = map[string]interface{}{"method": "transfer", "params": randValue(r, 2, kinds)}
	default:
		dt := "message"
		s.DataType = &dt
		s.HasData, s.Data = true, randValue(r, 3, kinds)
	}
	return s
}

// field text styles: 0 canonical, 1 upper-case digits, 2 leading zeros, 3 both;
// 10+ are outside the modelled sub-language (oracle only)
func fmtBigStyle(v *big.Int, style int) string {
	neg := v.Sign() < 0
	h := new(big.Int).Abs(v).Text(16)
	switch style {
	case 1:
		h = strings.ToUpper(h)
	case 2:
		h = "00" + h
	case 3:
		h = "0" + strings.ToUpper(h)
	case 10:
		if neg {
			return "-" + new(big.Int).Abs(v).Text(10)
		}
		return v.Text(10)
	}
	if neg {
		return "-0x" + h
	}
	return "0x" + h
}

func fmtAddrStyle(a []byte, style int) string {
	s := fmtAddr(a)
	switch style {
	case 1:
		return s[:2] + strings.ToUpper(s[2:])
	case 2:
		t := strings.TrimLeft(s[2:], "0")
		return s[:2] + t
	case 3:
		if a[0] == 0 {
			return "0x" + s[2:]
		}
	}
	return s
}

type fieldStyle struct{ Int, Addr int }

func (s *txSpec) render(fs fieldStyle, r *rand.Rand) map[string]interface{} {
	pick := func(st int) int {
		if st == 0 || r.Intn(2) == 0 {
			return 0
		}
		return st
	}
	m := map[string]interface{}{"version": "0x3"}
	m["from"] = fmtAddrStyle(s.From, pick(fs.Addr))
	m["to"] = fmtAddrStyle(s.To, pick(fs.Addr))
	if s.Value != nil {
		m["value"] = fmtBigStyle(s.Value, pick(fs.Int))
	}
	m["stepLimit"] = fmtBigStyle(s.StepLimit, pick(fs.Int))
	m["timestamp"] = fmtBigStyle(big.NewInt(s.Timestamp), pick(fs.Int))
	if s.NID != nil {
		m["nid"] = fmtBigStyle(big.NewInt(*s.NID), pick(fs.Int))
	}
	if s.Nonce != nil {
		m["nonce"] = fmtBigStyle(s.Nonce, pick(fs.Int))
	}
	if s.DataType != nil {
		m["dataType"] = *s.DataType
	}
	if s.HasData {
		m["data"] = s.Data
	}
	for k, v := range s.Extra {
		m[k] = v
	}
	return m
}

// signJSONMap adds the signature of the wallet over the reference pre-image.
func signJSONMap(m map[string]interface{}, w module.Wallet) bool {
	pre, ok := refPreMap(m)
	if !ok {
		return false
	}
	sig, err := w.Sign(sha3sum([]byte(pre)))
	if err != nil {
		return false
	}
	m["signature"] = base64.StdEncoding.EncodeToString(sig)
	return true
}

// ---------- binary form built by the harness ----------

func rlpBytes(b []byte) []byte {
	switch {
	case b == nil:
		return []byte{0xf8, 0}
	case len(b) == 1 && b[0] < 0x80:
		return []byte{b[0]}
	case len(b) <= 55:
		return append([]byte{byte(0x80 + len(b))}, b...)
	}
	sz := big.NewInt(int64(len(b))).Bytes()
	return append(append([]byte{byte(0xb7 + len(sz))}, sz...), b...)
}

func rlpList(items [][]byte) []byte {
	var body []byte
	for _, it := range items {
		body = append(body, rlpBytes(it)...)
	}
	if len(body) <= 55 {
		return append([]byte{byte(0xc0 + len(body))}, body...)
	}
	sz := big.NewInt(int64(len(body))).Bytes()
	return append(append([]byte{byte(0xf7 + len(sz))}, sz...), body...)
}

// two's complement, shortest
func tcBytes(v *big.Int) []byte {
	if v.Sign() == 0 {
		return []byte{0}
	}
	if v.Sign() > 0 {
		b := v.Bytes()
		if b[0]&0x80 != 0 {
			b = append([]byte{0}, b...)
		}
		return b
	}
	n := new(big.Int).Sub(new(big.Int).Neg(v), big.NewInt(1)).BitLen()/8 + 1
	m := new(big.Int).Lsh(big.NewInt(1), uint(8*n))
	return m.Add(m, v).Bytes()
}

type binStyle struct {
	Addr20   bool // EOA addresses as 20 bytes
	PadInts  bool // sign-extended integers (one extra byte)
	DataText int  // 0 compact, 1 with white space / shuffled keys
}

func padInt(b []byte) []byte {
	if b[0]&0x80 != 0 {
		return append([]byte{0xff}, b...)
	}
	return append([]byte{0}, b...)
}

func (s *txSpec) binItems(sig []byte, st binStyle, r *rand.Rand) [][]byte {
	enc := func(v *big.Int) []byte {
		b := tcBytes(v)
		if st.PadInts && r.Intn(2) == 0 {
			b = padInt(b)
		}
		return b
	}
	opt := func(v *big.Int) []byte {
		if v == nil {
			return nil
		}
		return enc(v)
	}
	addr := func(a []byte) []byte {
		if st.Addr20 && a[0] == 0 {
			return a[1:]
		}
		return a
	}
	items := make([][]byte, 11)
	items[0] = []byte{3}
	items[1] = addr(s.From)
	items[2] = addr(s.To)
	items[3] = opt(s.Value)
	items[4] = enc(s.StepLimit)
	items[5] = tcBytes(big.NewInt(s.Timestamp))
	if s.NID != nil {
		items[6] = tcBytes(big.NewInt(*s.NID))
	}
	items[7] = opt(s.Nonce)
	if sig == nil {
		sig = []byte{}
	}
	items[8] = sig
	if s.DataType != nil {
		items[9] = []byte(*s.DataType)
	}
	if s.HasData {
		ts := textStyle{}
		if st.DataText == 1 {
			ts = textStyle{Shuffle: true, Spaces: true, UEscape: r.Intn(2) == 0}
		}
		items[10] = []byte(encJSON(s.Data, r, ts))
	}
	return items
}

func (s *txSpec) signStruct() []byte {
	pre, ok := refPreStruct(s.vals())
	if !ok {
		return nil
	}
	sig, err := s.W.Sign(sha3sum([]byte(pre)))
	if err != nil {
		return nil
	}
	return sig
}
