package main

import "encoding/base64"

func base64Decode(s string) ([]byte, error) { return base64.StdEncoding.DecodeString(s) }
func base64Encode(b []byte) string          { return base64.StdEncoding.EncodeToString(b) }
