// c12: a transaction keeps its identity across all representations
// (service/transaction vs Model_TxSerialize).
package main

import (
	"bytes"
	"encoding/hex"
	"encoding/json"
	"fmt"
	"math/big"
	"math/rand"
	"os"
	"path/filepath"
	"reflect"
	"sort"

	"github.com/icon-project/goloop/service/transaction"
	"verif/harness/hxlib"
)

const rounds = 3

type replayIn struct {
	T            string   `json:"t"`
	Texts        []string `json:"texts_hex,omitempty"` // JSON texts or binary forms
	Bin          bool     `json:"bin,omitempty"`
	Bins         []bool   `json:"bins,omitempty"` // per text, for pairs of mixed form
	ExpectOK     bool     `json:"expect_ok,omitempty"`
	ExpectVerify bool     `json:"expect_verify,omitempty"`
	JSONTrip     bool     `json:"json_trip,omitempty"`
	What         string   `json:"what,omitempty"`
}

func (in *replayIn) binAt(i int) bool {
	if i < len(in.Bins) {
		return in.Bins[i]
	}
	return in.Bin
}

func hx(b []byte) string { return hex.EncodeToString(b) }
func unhx(s string) []byte {
	b, _ := hex.DecodeString(s)
	return b
}

func parse(b []byte, bin bool) (tx transaction.Transaction, err error) {
	if p := hxlib.Catch(func() {
		if bin {
			tx, err = transaction.NewTransaction(b)
		} else {
			tx, err = transaction.NewTransactionFromJSON(b)
		}
	}); p != "" {
		return nil, fmt.Errorf("panic: %s", p)
	}
	return
}

func verifyOK(tx transaction.Transaction) (ok bool) {
	if p := hxlib.Catch(func() { ok = tx.Verify() == nil }); p != "" {
		return false
	}
	return
}

// O1: every observable is the same after each conversion, `rounds` times.
// jsonTrip: also go through MarshalJSON / NewTransactionFromJSON each round.
func oracleStable(in []byte, bin, expectOK, expectVerify, jsonTrip bool) string {
	tx, err := parse(in, bin)
	if err != nil || !transaction.VerifIsV3(tx) {
		if expectOK {
			return fmt.Sprintf("well-formed transaction not accepted: %v", err)
		}
		return ""
	}
	o0 := observe(tx)
	v0 := verifyOK(tx)
	if expectVerify && !v0 {
		return fmt.Sprintf("transaction signed by its sender over the reference id does not verify (id %x)", o0.ID)
	}
	cur := tx
	for i := 1; i <= rounds; i++ {
		var bs []byte
		if p := hxlib.Catch(func() { bs = cur.Bytes() }); p != "" || bs == nil {
			if o0.F.SigNil || o0.F.SigHasV {
				return fmt.Sprintf("round %d: Bytes() gives nothing (%s)", i, p)
			}
			return "" // a 64-byte signature has no stored form; it never verifies either
		}
		tx2, err := parse(bs, true)
		if err != nil || !transaction.VerifIsV3(tx2) {
			return fmt.Sprintf("round %d: stored form is not parsed back: %v", i, err)
		}
		o2 := observe(tx2)
		if d := sameObservables(o0, o2); d != "" {
			return fmt.Sprintf("round %d after Bytes/NewTransaction: %s", i, d)
		}
		if verifyOK(tx2) != v0 {
			return fmt.Sprintf("round %d after Bytes/NewTransaction: Verify changed from %v", i, v0)
		}
		cur = tx2
		if jsonTrip {
			js, err := marshalTx(tx2)
			if err != nil {
				return fmt.Sprintf("round %d: MarshalJSON fails: %v", i, err)
			}
			tx3, err := parse(js, false)
			if err != nil || !transaction.VerifIsV3(tx3) {
				return fmt.Sprintf("round %d: own JSON form is not parsed back: %v", i, err)
			}
			o3 := observe(tx3)
			if d := sameObservables(o0, o3); d != "" {
				if !o0.Raw && o0.Vals.DataType != nil && hasSpecial(*o0.Vals.DataType) && !bytes.Equal(o0.ID, o3.ID) {
					o3id := o3.ID
					o3.ID = o0.ID
					if sameObservables(o0, o3) == "" {
						return fmt.Sprintf("%s: round %d after MarshalJSON/NewTransactionFromJSON: id %x became %x", mechF2, i, o0.ID, o3id)
					}
				}
				return fmt.Sprintf("round %d after MarshalJSON/NewTransactionFromJSON: %s", i, d)
			}
			if verifyOK(tx3) != v0 {
				return fmt.Sprintf("round %d after MarshalJSON/NewTransactionFromJSON: Verify changed from %v", i, v0)
			}
			cur = tx3
		}
	}
	return ""
}

// O2: textual variants of one JSON object have one id
func oracleVariants(texts [][]byte) string {
	var id []byte
	for i, t := range texts {
		tx, err := parse(t, false)
		if err != nil {
			return fmt.Sprintf("variant %d not accepted: %v", i, err)
		}
		if i == 0 {
			id = append([]byte{}, tx.ID()...)
		} else if !bytes.Equal(id, tx.ID()) {
			return fmt.Sprintf("white space / key order / escape variant %d has id %x, variant 0 has %x", i, tx.ID(), id)
		}
	}
	return ""
}

// O3: b is a with one signed field changed and the signature kept
func oracleMutation(a, b []byte, bin bool, what string) string {
	ta, err := parse(a, bin)
	if err != nil {
		return ""
	}
	tb, err := parse(b, bin)
	if err != nil {
		return "" // rejected outright: fine
	}
	if bytes.Equal(ta.ID(), tb.ID()) {
		if oa, ob := observe(ta), observe(tb); oa != nil && ob != nil {
			if _, mech := classify(oa, ob); mech != "" {
				return fmt.Sprintf("%s: changing %s keeps the id %x", mech, what, ta.ID())
			}
		}
		return fmt.Sprintf("changing %s keeps the id %x", what, ta.ID())
	}
	if verifyOK(tb) {
		return fmt.Sprintf("after changing %s the old signature still verifies", what)
	}
	return ""
}

// ---------- case construction ----------

func obsOpt(tx transaction.Transaction, err error) (string, *obsT) {
	if err != nil || tx == nil || !transaction.VerifIsV3(tx) {
		return "None", nil
	}
	o := observe(tx)
	return "(Some " + o.coq() + ")", o
}

// addHashes puts the pre-images of everything derivable from a decoded JSON map
// and observed field values into the table.
func addMapHashes(tab *tabT, m map[string]interface{}) {
	pre, ok := refPreMap(m)
	tab.addHash(pre, ok)
}

func addB64(btab *tabT, m map[string]interface{}) {
	if s, ok := m["signature"].(string); ok && s != "" {
		if b, err := base64Decode(s); err == nil {
			btab.add([]byte(s), b)
		}
	}
}

func jsonCase(text []byte) (coq string, accepted bool) {
	tree, err := decodeTree(text)
	m, isMap := tree.(map[string]interface{})
	if err != nil || !isMap {
		return "", false
	}
	htab, btab := newTab(), newTab()
	addMapHashes(htab, m)
	addB64(btab, m)
	tx, perr := parse(text, false)
	if perr != nil || !transaction.VerifIsV3(tx) {
		// the model needs the struct pre-image only when it accepts; give the map one
		return fmt.Sprintf("(CJson %s %s %s None)", htab.coq(), btab.coq(), coqMap(m)), false
	}
	o := observe(tx)
	pre, ok := refPreStruct(&o.Vals)
	htab.addHash(pre, ok)
	binS, o2S, tjS, o3S := "None", "None", "None", "None"
	var bs []byte
	hxlib.Catch(func() { bs = tx.Bytes() })
	if bs != nil {
		if s, _, ok := coqBin(bs); ok {
			binS = "(Some " + s + ")"
		} else {
			return "", true
		}
		tx2, err := parse(bs, true)
		var o2 *obsT
		o2S, o2 = obsOpt(tx2, err)
		if o2 != nil {
			pre, ok := refPreStruct(&o2.Vals)
			htab.addHash(pre, ok)
		}
	}
	if js, err := marshalTx(tx); err == nil {
		if t2, err := decodeTree(js); err == nil {
			if m2, ok := t2.(map[string]interface{}); ok {
				tjS = "(Some " + coqMap(m2) + ")"
				addMapHashes(htab, m2)
				addB64(btab, m2)
				tx3, err := parse(js, false)
				var o3 *obsT
				o3S, o3 = obsOpt(tx3, err)
				if o3 != nil {
					pre, ok := refPreStruct(&o3.Vals)
					htab.addHash(pre, ok)
				}
			}
		}
	}
	return fmt.Sprintf("(CJson %s %s %s (Some (%s, %s, %s, %s, %s)))", htab.coq(), btab.coq(), coqMap(m),
		o.coq(), binS, o2S, tjS, o3S), true
}

func binCase(bs []byte) (coq string, accepted bool) {
	bS, ok := coqBinV3(bs)
	if !ok {
		return "", false
	}
	htab, btab := newTab(), newTab()
	tx, err := parse(bs, true)
	if err != nil || !transaction.VerifIsV3(tx) {
		return fmt.Sprintf("(CBin [] [] %s None)", bS), false
	}
	o := observe(tx)
	pre, pok := refPreStruct(&o.Vals)
	htab.addHash(pre, pok)
	if o.F.SigRSV != nil {
		btab.add([]byte(base64Encode(o.F.SigRSV)), o.F.SigRSV)
	}
	tjS, o3S := "None", "None"
	if js, err := marshalTx(tx); err == nil {
		if t2, err := decodeTree(js); err == nil {
			if m2, ok := t2.(map[string]interface{}); ok {
				tjS = "(Some " + coqMap(m2) + ")"
				addMapHashes(htab, m2)
				addB64(btab, m2)
				tx3, err := parse(js, false)
				var o3 *obsT
				o3S, o3 = obsOpt(tx3, err)
				if o3 != nil {
					pre, ok := refPreStruct(&o3.Vals)
					htab.addHash(pre, ok)
				}
			}
		}
	}
	return fmt.Sprintf("(CBin %s %s %s (Some (%s, %s, %s)))", htab.coq(), btab.coq(), bS, o.coq(), tjS, o3S), true
}

// ---------- mutations of a specification (one signed field each) ----------

func mutateSpec(s *txSpec, r *rand.Rand, binary bool) (*txSpec, string) {
	c := s.clone()
	one := big.NewInt(1)
	for {
		switch r.Intn(12) {
		case 0:
			c.From = append([]byte{}, s.From...)
			c.From[1+r.Intn(20)] ^= byte(1 << uint(r.Intn(8)))
			return c, "from"
		case 1:
			c.To = append([]byte{}, s.To...)
			c.To[r.Intn(21)] ^= 1
			return c, "to"
		case 2:
			if s.Value == nil {
				c.Value = big.NewInt(0)
				return c, "value (absent -> 0)"
			}
			c.Value = new(big.Int).Add(s.Value, one)
			return c, "value"
		case 3:
			c.StepLimit = new(big.Int).Add(s.StepLimit, one)
			return c, "stepLimit"
		case 4:
			c.Timestamp = s.Timestamp + 1
			return c, "timestamp"
		case 5:
			if s.NID == nil {
				v := int64(0)
				c.NID = &v
				return c, "nid (absent -> 0)"
			}
			if *s.NID == 0 {
				c.NID = nil
				return c, "nid (0 -> absent)"
			}
			v := *s.NID + 1
			c.NID = &v
			return c, "nid"
		case 6:
			if s.Nonce == nil {
				c.Nonce = big.NewInt(0)
				return c, "nonce (absent -> 0)"
			}
			if s.Nonce.Sign() == 0 {
				c.Nonce = nil
				return c, "nonce (0 -> absent)"
			}
			c.Nonce = new(big.Int).Add(s.Nonce, one)
			return c, "nonce"
		case 7:
			if s.DataType != nil {
				dt := *s.DataType + "x"
				c.DataType = &dt
				return c, "dataType"
			}
		case 8, 9, 10:
			if s.HasData {
				if d, what, ok := mutateValue(s.Data, r); ok {
					c.Data = d
					return c, "data (" + what + ")"
				}
			}
		case 11:
			if s.Value != nil && s.Value.Sign() == 0 {
				c.Value = nil
				return c, "value (0 -> absent)"
			}
		}
	}
}

// mutateValue changes a JSON value into one that is not equivalent under the
// documented equivalences (list leading empty strings, number/string).
func mutateValue(v interface{}, r *rand.Rand) (interface{}, string, bool) {
	switch x := v.(type) {
	case nil:
		return "", "null -> \"\"", true
	case string:
		switch r.Intn(4) {
		case 0:
			if x != swapCase(x) {
				return swapCase(x), "letter case", true
			}
		case 1:
			// the string that the value's own escaped form spells out
			if hasSpecial(x) {
				return refEscaper.Replace(x), "string -> its escaped spelling", true
			}
		case 2:
			if x == `\0` {
				return nil, `"\0" -> null`, true
			}
		}
		return x + "!", "string", true
	case float64:
		return x + 1, "number", true
	case bool:
		return nil, "", false
	case []interface{}:
		if len(x) > 0 && r.Intn(2) == 0 {
			i := r.Intn(len(x))
			if y, what, ok := mutateValue(x[i], r); ok {
				c := append([]interface{}{}, x...)
				c[i] = y
				// keep clear of the leading-empty-string equivalence
				if s, _ := refValue(c); s != mustRef(x) {
					return c, what, true
				}
			}
		}
		if s, ok := refValue(x); ok && r.Intn(2) == 0 {
			// adversarial: the string that spells the list's serialisation
			return s, "list -> the string spelling its serialisation", true
		}
		return append(append([]interface{}{}, x...), "z"), "list grows", true
	case map[string]interface{}:
		if s, ok := refValue(x); ok && r.Intn(3) == 0 {
			return s, "dict -> the string spelling its serialisation", true
		}
		c := map[string]interface{}{}
		for k, e := range x {
			c[k] = e
		}
		for _, k := range sortedKeys(x) {
			e := x[k]
			if r.Intn(2) == 0 {
				// "a.b": v  <->  "a": {"b": v} style regrouping
				delete(c, k)
				c[k+".q"] = e
				return c, "key renamed", true
			}
			if y, what, ok := mutateValue(e, r); ok {
				c[k] = y
				if s, _ := refValue(c); s != mustRef(x) {
					return c, what, true
				}
			}
			break
		}
		c["zz"] = "1"
		return c, "dict grows", true
	}
	return nil, "", false
}

func sortedKeys(m map[string]interface{}) []string {
	ks := make([]string, 0, len(m))
	for k := range m {
		ks = append(ks, k)
	}
	sort.Strings(ks)
	return ks
}

func mustRef(v interface{}) string { s, _ := refValue(v); return s }

func swapCase(s string) string {
	b := []byte(s)
	for i, c := range b {
		if c >= 'a' && c <= 'z' {
			b[i] = c - 32
		} else if c >= 'A' && c <= 'Z' {
			b[i] = c + 32
		}
	}
	return string(b)
}

// pairs of data values that collide as soon as one escaping rule or one
// structural marker is dropped from the serializer
var adversarial = [][2]string{
	{`["a.b"]`, `["a","b"]`}, {`{"a.b":"c"}`, `{"a":"b.c"}`}, {`"[a]"`, `["a"]`}, {`"{a.b}"`, `{"a":"b"}`},
	{`"\\0"`, `null`}, {`["\\0"]`, `[null]`}, {`["a]","[b"]`, `[["a"],["b"]]`}, {`{"k":"a}.{b"}`, `{"k":"a","{b":"}"}`},
	{`"a\\"`, `"a\\\\"`}, {`["a\\.b"]`, `["a\\","b"]`}, {`{"a":"b","c":"d"}`, `{"a":"b.c.d"}`},
	{`["a",""]`, `["a"]`}, {`["a","","b"]`, `["a","b"]`}, {`[[]]`, `["[]"]`}, {`[{}]`, `["{}"]`},
	{`{"":""}`, `{}`}, {`{"":"a"}`, `"a"`}, {`[""," "]`, `["", ""]`}, {`"."`, `""`}, {`["."]`, `["",""]`},
	{`{"a":["b"]}`, `{"a":"[b]"}`}, {`{"a":{"b":"c"}}`, `{"a":"{b.c}"}`}, {`{"a":null}`, `{"a":"\\0"}`},
}

func gen(c *hxlib.Ctx) {
	r := c.Rand
	wallets := []interface{}{}
	_ = wallets
	w1, w2 := newWallet(r), newWallet(r)

	// ---- 0. committed corpus (known findings) ----
	genCorpus(c)

	// ---- A. SerializeValue on random trees (all JSON kinds) ----
	for i := 0; i < c.N(250); i++ {
		v := randValue(r, 3, i%3)
		var out []byte
		var err error
		p := hxlib.Catch(func() { out, err = transaction.SerializeValue(v) })
		msg := ""
		if p != "" {
			msg = "SerializeValue panics: " + p
		}
		js, _ := json.Marshal(v)
		c.Emit(hxlib.Case{Kind: "ser", Coq: fmt.Sprintf("(CSer %s %s)", coqJSON(v), coqOptBytes(out, err == nil)),
			Input: replayIn{T: "ser", Texts: []string{hx(js)}}, Nontrivial: true, OracleErr: msg})
	}

	// ---- B. JSON submissions ----
	nJSON := c.N(170)
	for i := 0; i < nJSON; i++ {
		w := w1
		if i%5 == 0 {
			w = w2
		}
		kinds := 0
		if i%6 == 5 {
			kinds = 1 + r.Intn(2)
		}
		spec := randSpec(r, w, kinds)
		fs := fieldStyle{}
		kind := "json-canonical"
		switch i % 8 {
		case 1:
			fs.Int, kind = 1+r.Intn(3), "json-hexvariant"
		case 2:
			fs.Addr, kind = 1+r.Intn(3), "json-addrvariant"
		case 3:
			spec.Extra = map[string]interface{}{"extra" + randStr(r): randValue(r, 1, 0)}
			kind = "json-extrafield"
		case 4:
			dt := []string{"a.b", "x{", "m\\", "call.", "[]"}[r.Intn(5)]
			spec.DataType = &dt
			kind = "json-dataType-special"
		case 5:
			fs.Int, kind = 10, "json-decimal(unmodelled)"
		}
		if kinds > 0 {
			kind = "json-data-numbers"
		}
		m := spec.render(fs, r)
		signed := signJSONMap(m, w)
		st := textStyle{Shuffle: r.Intn(2) == 0, Spaces: r.Intn(2) == 0, UEscape: r.Intn(3) == 0}
		text := []byte(encJSON(m, r, st))
		// with a bool inside data the map hash cannot be computed: the code must reject
		_, serializable := refPreMap(m)
		expectOK := serializable
		coq, accepted := "", false
		if !c.OracleOnly {
			coq, accepted = jsonCase(text)
		}
		_ = accepted
		msg := oracleStable(text, false, expectOK, signed && expectOK, true)
		c.Emit(hxlib.Case{Kind: kind, Coq: coq, Nontrivial: true, OracleErr: msg,
			Input: replayIn{T: "stable", Texts: []string{hx(text)}, ExpectOK: expectOK, ExpectVerify: signed && expectOK, JSONTrip: true}})

		if !serializable {
			continue
		}
		// variants of the same object: one id
		if i%3 == 0 {
			vs := [][]byte{text}
			for k := 0; k < 3; k++ {
				vs = append(vs, []byte(encJSON(m, r, textStyle{Shuffle: true, Spaces: k != 1, UEscape: k != 0})))
			}
			hs := make([]string, len(vs))
			for k := range vs {
				hs[k] = hx(vs[k])
			}
			c.Emit(hxlib.Case{Kind: "json-variants", Key: hs[1] + hs[2], Nontrivial: true, OracleErr: oracleVariants(vs),
				Input: replayIn{T: "variants", Texts: hs}})
		}
		// one signed field changed, signature kept
		for k := 0; k < 2; k++ {
			ms, what := mutateSpec(spec, r, false)
			m2 := ms.render(fs, rand.New(rand.NewSource(1)))
			m1 := spec.render(fs, rand.New(rand.NewSource(1)))
			if reflect.DeepEqual(m1, m2) {
				continue
			}
			m1["signature"], m2["signature"] = m["signature"], m["signature"]
			if !signJSONMap(m1, w) {
				continue
			}
			m2["signature"] = m1["signature"]
			t1, t2 := []byte(encJSON(m1, r, textStyle{})), []byte(encJSON(m2, r, st))
			c.Emit(hxlib.Case{Kind: "json-mutation", Key: hx(t2), Nontrivial: true, OracleErr: oracleMutation(t1, t2, false, what),
				Input: replayIn{T: "mut", Texts: []string{hx(t1), hx(t2)}, What: what}})
		}
	}

	// ---- C. adversarial data pairs (JSON and binary) ----
	for i, pr := range adversarial {
		var d1, d2 interface{}
		if json.Unmarshal([]byte(pr[0]), &d1) != nil || json.Unmarshal([]byte(pr[1]), &d2) != nil {
			panic("bad adversarial pair " + pr[0])
		}
		if mustRef(d1) == mustRef(d2) {
			// a documented equivalence of the format (see notes): not a violation
			c.Note("equivalent under the format as implemented: data %s and %s have the same serialisation %q", pr[0], pr[1], mustRef(d1))
			continue
		}
		spec := randSpec(r, w1, 0)
		dt := "message"
		spec.DataType, spec.HasData, spec.Data = &dt, true, d1
		s2 := spec.clone()
		s2.Data = d2
		m1, m2 := spec.render(fieldStyle{}, r), s2.render(fieldStyle{}, r)
		signJSONMap(m1, w1)
		m2["signature"] = m1["signature"]
		t1, t2 := []byte(encJSON(m1, r, textStyle{})), []byte(encJSON(m2, r, textStyle{}))
		what := fmt.Sprintf("data %s into %s", pr[0], pr[1])
		coq := ""
		if !c.OracleOnly {
			coq, _ = jsonCase(t2)
		}
		c.Emit(hxlib.Case{Kind: "adversarial-json", Coq: coq, Key: fmt.Sprint("adv", i), Nontrivial: true,
			OracleErr: oracleMutation(t1, t2, false, what), Input: replayIn{T: "mut", Texts: []string{hx(t1), hx(t2)}, What: what}})
		sig := spec.signStruct()
		b1 := rlpList(spec.binItems(sig, binStyle{}, r))
		b2 := rlpList(s2.binItems(sig, binStyle{}, r))
		c.Emit(hxlib.Case{Kind: "adversarial-bin", Key: fmt.Sprint("advb", i), Nontrivial: true,
			OracleErr: oracleMutation(b1, b2, true, what), Input: replayIn{T: "mut", Bin: true, Texts: []string{hx(b1), hx(b2)}, What: what}})
	}

	// ---- D. binary submissions ----
	for i := 0; i < c.N(110); i++ {
		kinds := 0
		if i%7 == 6 {
			kinds = 1
		}
		spec := randSpec(r, w1, kinds)
		kind := "bin-canonical"
		st := binStyle{}
		jsonTrip := true
		switch i % 6 {
		case 1:
			st.Addr20, kind = true, "bin-addr20"
		case 2:
			st.PadInts, kind = true, "bin-padded-ints"
		case 3:
			st.DataText, kind = 1, "bin-data-text-variant"
		case 4:
			dt := []string{"a.b", "x{", "m\\", "call.", "message.extra.b"}[r.Intn(5)]
			spec.DataType = &dt
			kind, jsonTrip = "bin-dataType-special", false // see notes: the struct hash does not escape dataType
		}
		if spec.Value != nil && i%9 == 0 {
			spec.Value = new(big.Int).Neg(spec.Value)
		}
		sig := spec.signStruct()
		bs := rlpList(spec.binItems(sig, st, r))
		expectVerify := sig != nil && (spec.Value == nil || spec.Value.Sign() >= 0) &&
			(spec.DataType == nil || *spec.DataType == "message" || kind == "bin-dataType-special")
		coq := ""
		if !c.OracleOnly {
			coq, _ = binCase(bs)
		}
		c.Emit(hxlib.Case{Kind: kind, Coq: coq, Nontrivial: true,
			OracleErr: oracleStable(bs, true, true, expectVerify, jsonTrip),
			Input:     replayIn{T: "stable", Bin: true, Texts: []string{hx(bs)}, ExpectOK: true, ExpectVerify: expectVerify, JSONTrip: jsonTrip}})
		// harness encoder agrees with the codec on canonical forms (generator sanity)
		if kind == "bin-canonical" {
			if o := observeBytes(bs); o != nil {
				if enc, err := transaction.VerifV3Encode(o.F, sig); err == nil && !bytes.Equal(enc, bs) {
					c.Note("harness RLP differs from codec for a canonical transaction: %x vs %x", bs, enc)
				}
			}
		}
		for k := 0; k < 2; k++ {
			ms, what := mutateSpec(spec, r, true)
			b2 := rlpList(ms.binItems(sig, st, rand.New(rand.NewSource(int64(i)))))
			b1 := rlpList(spec.binItems(sig, st, rand.New(rand.NewSource(int64(i)))))
			c.Emit(hxlib.Case{Kind: "bin-mutation", Key: hx(b2), Nontrivial: true, OracleErr: oracleMutation(b1, b2, true, what),
				Input: replayIn{T: "mut", Bin: true, Texts: []string{hx(b1), hx(b2)}, What: what}})
		}
	}


	// canary: a wrong id
	c.Emit(hxlib.Case{Kind: "canary", Canary: true, Coq: "(CSer (JList [JStr [46]]) (Some [91;46;93]))"})
}

func observeBytes(bs []byte) *obsT {
	tx, err := parse(bs, true)
	if err != nil || !transaction.VerifIsV3(tx) {
		return nil
	}
	return observe(tx)
}

// mkCorpus writes the corpus files of the known findings (run once:
// `hx-c12 mkcorpus DIR`); the wallet is derived from a fixed seed.
func mkCorpus(dir string) {
	r := rand.New(rand.NewSource(7))
	w1 := newWallet(r)
	write := func(name, what string, in replayIn) {
		b, _ := json.MarshalIndent(map[string]interface{}{"property": "C12", "what": what, "input": in}, "", " ")
		os.WriteFile(filepath.Join(dir, name), append(b, '\n'), 0o644)
	}
	mk := func(data string) *txSpec {
		var d interface{}
		json.Unmarshal([]byte(data), &d)
		dt := "message"
		return &txSpec{W: w1, From: append([]byte{}, w1.Address().Bytes()...), To: make([]byte, 21),
			StepLimit: big.NewInt(100000), Timestamp: 1, DataType: &dt, HasData: true, Data: d}
	}
	pair := func(d1, d2 string) []string {
		a, b := mk(d1), mk(d2)
		ma, mb := a.render(fieldStyle{}, r), b.render(fieldStyle{}, r)
		signJSONMap(ma, w1)
		mb["signature"] = ma["signature"]
		return []string{hx([]byte(encJSON(ma, r, textStyle{}))), hx([]byte(encJSON(mb, r, textStyle{})))}
	}
	write("f1_list_leading_empty_1.json", "F1: data [\"\",\"a\"] and [\"a\"] share an id and a signature (serializeList tests buf.Len() > 0)",
		replayIn{T: "collide", Texts: pair(`["","a"]`, `["a"]`)})
	// F2/F3: the struct hash writes dataType unescaped
	dt := "message.extra.b"
	s := &txSpec{W: w1, From: append([]byte{}, w1.Address().Bytes()...), To: make([]byte, 21),
		StepLimit: big.NewInt(100000), Timestamp: 1, DataType: &dt}
	sig := s.signStruct()
	bin := rlpList(s.binItems(sig, binStyle{}, r))
	dt2 := "message"
	j := &txSpec{W: w1, From: s.From, To: s.To, StepLimit: s.StepLimit, Timestamp: 1, DataType: &dt2,
		Extra: map[string]interface{}{"extra": "b"}}
	mj := j.render(fieldStyle{}, r)
	mj["signature"] = base64Encode(sig)
	write("f2_datatype_unescaped.json", "F2/F3: stored transaction with dataType \"message.extra.b\" and JSON transaction with dataType \"message\" plus \"extra\":\"b\" share id and signature; the stored one changes id through its own JSON form",
		replayIn{T: "collide", Texts: []string{hx(bin), hx([]byte(encJSON(mj, r, textStyle{})))}, Bins: []bool{true, false}})
	write("f4_number.json", "number inside data hashed as the decimal text of int64(float64): {\"a\":1.5} and {\"a\":\"1\"} share an id and a signature",
		replayIn{T: "collide", Texts: pair(`{"a":1.5}`, `{"a":"1"}`)})
}

func replay(raw json.RawMessage) string {
	var in replayIn
	if err := json.Unmarshal(raw, &in); err != nil {
		return "bad replay input: " + err.Error()
	}
	texts := make([][]byte, len(in.Texts))
	for i, t := range in.Texts {
		texts[i] = unhx(t)
	}
	switch in.T {
	case "ser":
		var v interface{}
		if json.Unmarshal(texts[0], &v) != nil {
			return ""
		}
		if p := hxlib.Catch(func() { transaction.SerializeValue(v) }); p != "" {
			return "SerializeValue panics: " + p
		}
		return ""
	case "stable":
		return oracleStable(texts[0], in.Bin, in.ExpectOK, in.ExpectVerify, in.JSONTrip)
	case "variants":
		return oracleVariants(texts)
	case "mut":
		return oracleMutation(texts[0], texts[1], in.Bin, in.What)
	case "collide":
		if len(texts) < 2 {
			return "bad collide input"
		}
		return oracleCollision(texts[0], in.binAt(0), texts[1], in.binAt(1))
	}
	return "unknown case type " + in.T
}

func main() {
	if len(os.Args) == 3 && os.Args[1] == "mkcorpus" {
		mkCorpus(os.Args[2])
		return
	}
	hxlib.Main(hxlib.Spec{
		ID: "C12",
		Rule: "random v3 transactions (optional value/nid/nonce/dataType/data, nested data with the characters \\ { } [ ] . , empty strings and keys, null, and in a sixth of the cases numbers/bools), signed by a real wallet over the harness's own reference pre-image; submitted (B) as JSON in canonical, hex-case/leading-zero, address-case/short/0x, extra-field, special-dataType and decimal variants with shuffled keys, white space and \\u escapes, (D) as binary forms built by the harness (canonical, 20-byte addresses, sign-extended integers, re-spaced data text, special dataType); each goes through Bytes/NewTransaction/MarshalJSON/NewTransactionFromJSON three times; (A) SerializeValue on random trees of every JSON kind; (C) fixed adversarial data pairs that collide when an escape or a marker is dropped; one-field mutations with the old signature for JSON and binary forms; non-trivial = every case; distinct = distinct Coq term / input",
		Preamble: "From Goloop Require Import lib.Bytes Model_Address Model_TxSerialize.\nFrom Coq Require Import Uint63.\nFrom GoloopRun Require Import Run_C12.",
		Shard:    150,
		Gen:   gen, Replay: replay,
	})
}
