package main

import (
	"encoding/json"
	"fmt"
	"math/big"
	"os"
	"path/filepath"
	"reflect"
	"sort"
	"strconv"

	"verif/harness/hxlib"
)

// The three mechanisms by which the implemented pre-image forgets a signed
// difference (docs/notes/C12.md, known-findings.txt).  The oracle names a
// mechanism only when it has checked that the two transactions differ in
// exactly that way; every other equal-id pair keeps the generic message.
const (
	mechF1  = "list leading empty string"
	mechF2  = "dataType unescaped"
	mechNum = "number printed as integer"
)

// signed content of an observed transaction: the JSON map minus signature/txHash
// for a raw transaction, the canonical map of the field values otherwise
func content(o *obsT) map[string]interface{} {
	if o.Raw {
		t, err := decodeTree(o.F.CachedBin)
		m, ok := t.(map[string]interface{})
		if err != nil || !ok {
			return nil
		}
		c := map[string]interface{}{}
		for k, v := range m {
			if !v3Excluded[k] {
				c[k] = v
			}
		}
		return c
	}
	v := &o.Vals
	c := map[string]interface{}{"version": "0x3", "from": fmtAddr(v.From), "to": fmtAddr(v.To),
		"stepLimit": fmtBig(v.StepLimit), "timestamp": fmtBig(big.NewInt(v.Timestamp))}
	if v.Value != nil {
		c["value"] = fmtBig(v.Value)
	}
	if v.NID != nil {
		c["nid"] = fmtBig(big.NewInt(*v.NID))
	}
	if v.Nonce != nil {
		c["nonce"] = fmtBig(v.Nonce)
	}
	if v.DataType != nil {
		c["dataType"] = *v.DataType
	}
	if v.HasData {
		if v.DataEmpty {
			c["data"] = ""
		} else {
			c["data"] = v.Data
		}
	}
	return c
}

func mapTree(v interface{}, f func(interface{}) interface{}) interface{} {
	switch x := v.(type) {
	case []interface{}:
		l := make([]interface{}, len(x))
		for i, e := range x {
			l[i] = mapTree(e, f)
		}
		return f(l)
	case map[string]interface{}:
		m := map[string]interface{}{}
		for k, e := range x {
			m[k] = mapTree(e, f)
		}
		return f(m)
	}
	return f(v)
}

func normF1(v interface{}) interface{} {
	return mapTree(v, func(x interface{}) interface{} {
		if l, ok := x.([]interface{}); ok {
			i := 0
			for i < len(l) && l[i] == "" {
				i++
			}
			return l[i:]
		}
		return x
	})
}

func normNum(v interface{}) interface{} {
	return mapTree(v, func(x interface{}) interface{} {
		if f, ok := x.(float64); ok {
			return strconv.FormatInt(int64(f), 10)
		}
		return x
	})
}

func emptyToNil(v interface{}) interface{} {
	return mapTree(v, func(x interface{}) interface{} {
		if l, ok := x.([]interface{}); ok && len(l) == 0 {
			return []interface{}{}
		}
		return x
	})
}

func eqTree(a, b interface{}) bool { return reflect.DeepEqual(emptyToNil(a), emptyToNil(b)) }

// classify: same = the two transactions have the same signed content;
// mech = the known mechanism that explains equal ids of different contents ("" = none)
func classify(a, b *obsT) (same bool, mech string) {
	ca, cb := content(a), content(b)
	if ca == nil || cb == nil {
		return false, ""
	}
	var A, B interface{} = ca, cb
	switch {
	case eqTree(A, B):
		return true, ""
	case eqTree(normF1(A), normF1(B)):
		return false, mechF1
	case eqTree(normNum(A), normNum(B)):
		return false, mechNum
	case eqTree(normNum(normF1(A)), normNum(normF1(B))):
		return false, mechF1 + " + " + mechNum
	}
	// one stored (struct path) transaction whose dataType holds a special
	// character against a raw JSON transaction with the same pre-image
	st, rw := a, b
	if st.Raw {
		st, rw = b, a
	}
	if !st.Raw && rw.Raw && st.Vals.DataType != nil && hasSpecial(*st.Vals.DataType) {
		ps, ok1 := refPreStruct(&st.Vals)
		pm, ok2 := refPreMap(content(rw))
		if ok1 && ok2 && ps == pm {
			return false, mechF2
		}
	}
	return false, ""
}

// oracleCollision: the corpus form of a known finding — two submissions with
// different signed content; reports when they share an id, naming the mechanism
// only if it is the one that explains the pair.
func oracleCollision(a []byte, abin bool, b []byte, bbin bool) string {
	ta, err := parse(a, abin)
	if err != nil {
		return ""
	}
	tb, err := parse(b, bbin)
	if err != nil {
		return ""
	}
	oa, ob := observe(ta), observe(tb)
	if oa == nil || ob == nil || !bytesEq(oa.ID, ob.ID) {
		return ""
	}
	same, mech := classify(oa, ob)
	if same {
		return ""
	}
	both := ""
	if verifyOK(ta) && verifyOK(tb) {
		both = " and one signature verifies both"
	}
	if mech == "" {
		return fmt.Sprintf("two transactions with different signed content share the id %x%s", oa.ID, both)
	}
	msg := fmt.Sprintf("%s: two transactions that differ in a signed field share the id %x%s", mech, oa.ID, both)
	// F3: the stored transaction does not keep its id through its own JSON form
	if mech == mechF2 {
		st := ta
		if oa.Raw {
			st = tb
		}
		if js, err := marshalTx(st); err == nil {
			if t3, err := parse(js, false); err == nil && !bytesEq(t3.ID(), st.ID()) {
				msg += fmt.Sprintf("; the stored one has id %x after MarshalJSON/NewTransactionFromJSON", t3.ID())
			}
		}
	}
	return msg
}

func bytesEq(a, b []byte) bool { return string(a) == string(b) }

// ---------- corpus ----------

func corpusDir() string {
	if d := os.Getenv("C12_CORPUS"); d != "" {
		return d
	}
	wd, _ := os.Getwd()
	for d := wd; d != "/" && d != "."; d = filepath.Dir(d) {
		p := filepath.Join(d, "corpus", "C12")
		if st, err := os.Stat(p); err == nil && st.IsDir() {
			return p
		}
	}
	return "/verif/corpus/C12"
}

// genCorpus runs the committed inputs first: the known findings (which must
// keep producing their named oracle failure) — and the model must agree with
// the implementation on each of their transactions.
func genCorpus(c *hxlib.Ctx) {
	names, _ := filepath.Glob(filepath.Join(corpusDir(), "*.json"))
	sort.Strings(names)
	if len(names) == 0 {
		c.Note("no corpus files found in %s", corpusDir())
	}
	for _, n := range names {
		b, err := os.ReadFile(n)
		if err != nil {
			continue
		}
		var doc struct {
			Input replayIn `json:"input"`
		}
		if err := json.Unmarshal(b, &doc); err != nil || len(doc.Input.Texts) == 0 {
			c.Note("corpus file %s skipped: %v", n, err)
			continue
		}
		in := doc.Input
		raw, _ := json.Marshal(in)
		msg := replay(raw)
		if msg == "" && in.T == "collide" {
			c.Note("corpus %s: the known finding is no longer reproduced", filepath.Base(n))
		}
		for i, t := range in.Texts {
			text := unhx(t)
			coq := ""
			if !c.OracleOnly {
				if in.binAt(i) {
					coq, _ = binCase(text)
				} else {
					coq, _ = jsonCase(text)
				}
			}
			cs := hxlib.Case{Kind: "corpus", Coq: coq, Key: filepath.Base(n) + fmt.Sprint(i), Nontrivial: true, Input: in}
			if i == 0 {
				cs.OracleErr = msg
			}
			c.Emit(cs)
		}
	}
}
