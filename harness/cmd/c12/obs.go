package main

import (
	"bytes"
	"encoding/json"
	"fmt"
	"math/big"
	"reflect"

	"github.com/icon-project/goloop/service/transaction"
	"verif/harness/hxlib"
)

// ---------- splitting the RLP form into items (goloop RLP: 0xf8 0x00 = null) ----------

type rlpItem struct {
	Null bool
	B    []byte
}

func rlpHeader(b []byte) (tag byte, hdr, size int, ok bool) {
	if len(b) == 0 {
		return 0, 0, 0, false
	}
	t := int(b[0])
	rd := func(n int) (int, bool) {
		if len(b) < 1+n || n > 4 {
			return 0, false
		}
		v := 0
		for _, x := range b[1 : 1+n] {
			v = v<<8 | int(x)
		}
		return v, true
	}
	switch {
	case t < 0x80:
		return b[0], 0, 1, true
	case t <= 0xb7:
		return b[0], 1, t - 0x80, true
	case t < 0xc0:
		n := t - 0xb7
		s, ok := rd(n)
		return b[0], 1 + n, s, ok
	case t <= 0xf7:
		return b[0], 1, t - 0xc0, true
	default:
		n := t - 0xf7
		s, ok := rd(n)
		return b[0], 1 + n, s, ok
	}
}

func rlpSplitList(b []byte) ([]rlpItem, bool) {
	tag, hdr, size, ok := rlpHeader(b)
	if !ok || tag < 0xc0 || hdr+size != len(b) {
		return nil, false
	}
	body := b[hdr:]
	var items []rlpItem
	for len(body) > 0 {
		t, h, s, ok := rlpHeader(body)
		if !ok || h+s > len(body) {
			return nil, false
		}
		switch {
		case t == 0xf8 && s == 0:
			items = append(items, rlpItem{Null: true})
		case t >= 0xc0:
			return nil, false
		default:
			items = append(items, rlpItem{B: append([]byte{}, body[h:h+s]...)})
		}
		body = body[h+s:]
	}
	return items, true
}

// ---------- observations ----------

type obsT struct {
	Raw  bool
	ID   []byte
	F    *transaction.VerifV3Fields
	Vals fieldVals
}

func observe(tx transaction.Transaction) *obsT {
	f := transaction.VerifV3FieldsOf(tx)
	if f == nil {
		return nil
	}
	o := &obsT{Raw: f.Raw, ID: append([]byte{}, tx.ID()...), F: f}
	v := &o.Vals
	v.From, v.To, v.Value, v.StepLimit, v.Timestamp, v.NID, v.Nonce, v.DataType =
		f.From, f.To, f.Value, f.StepLimit, f.TimeStamp, f.NID, f.Nonce, f.DataType
	if !f.DataNil {
		v.HasData = true
		if len(f.Data) == 0 {
			v.DataEmpty = true
		} else if t, err := decodeTree(f.Data); err != nil {
			v.DataBad = true
		} else {
			v.Data = t
		}
	}
	return o
}

func coqTData(v *fieldVals) string {
	switch {
	case !v.HasData:
		return "DNone"
	case v.DataEmpty:
		return "DEmpty"
	case v.DataBad:
		return "DBad"
	}
	return "(DTree " + coqJSON(v.Data) + ")"
}

func coqSig(f *transaction.VerifV3Fields) string {
	switch {
	case f.SigNil:
		return "SigNone"
	case f.SigHasV:
		vrs := append([]byte{f.SigRSV[64] + 27}, f.SigRSV[:64]...)
		return "(SigV " + cb(vrs) + ")"
	}
	return "(SigRS " + cb(f.SigRS) + ")"
}

func (o *obsT) coq() string {
	f, v := o.F, &o.Vals
	nid := "None"
	if v.NID != nil {
		nid = "(Some " + hxlib.CoqZ(*v.NID) + ")"
	}
	dt := "None"
	if v.DataType != nil {
		dt = "(Some " + cb([]byte(*v.DataType)) + ")"
	}
	fields := fmt.Sprintf("{| t_version := %d; t_from := %s; t_to := %s; t_value := %s; t_stepLimit := %s; t_timestamp := %s; t_nid := %s; t_nonce := %s; t_sig := %s; t_dataType := %s; t_data := %s |}",
		f.Version, coqAddr(v.From), coqAddr(v.To), coqOptBig(v.Value), hxlib.CoqZ(v.StepLimit.String()),
		hxlib.CoqZ(v.Timestamp), nid, coqOptBig(v.Nonce), coqSig(f), dt, coqTData(v))
	return fmt.Sprintf("{| o_raw := %s; o_id := %s; o_f := %s |}", hxlib.CoqBool(o.Raw), cb(o.ID), fields)
}

// coqBin prints Bytes() as a `bin` term; ok=false if it has a shape the model type cannot hold.
func coqBin(bs []byte) (string, *fieldVals, bool) {
	if len(bs) > 0 && bs[0] == '{' {
		t, err := decodeTree(bs)
		if err != nil {
			return "", nil, false
		}
		return "(BJson " + coqJSON(t) + ")", nil, true
	}
	s, ok := coqBinV3(bs)
	return "(BRlp " + s + ")", nil, ok
}

func coqBinV3(bs []byte) (string, bool) {
	it, ok := rlpSplitList(bs)
	if !ok || len(it) != 11 {
		return "", false
	}
	for _, i := range []int{0, 1, 2, 4, 5, 8} {
		if it[i].Null {
			return "", false
		}
	}
	opt := func(i rlpItem) string { return coqOptBytes(i.B, !i.Null) }
	var dv fieldVals
	if !it[10].Null {
		dv.HasData = true
		if len(it[10].B) == 0 {
			dv.DataEmpty = true
		} else if t, err := decodeTree(it[10].B); err != nil {
			dv.DataBad = true
		} else {
			dv.Data = t
		}
	}
	return fmt.Sprintf("{| b_version := %s; b_from := %s; b_to := %s; b_value := %s; b_stepLimit := %s; b_timestamp := %s; b_nid := %s; b_nonce := %s; b_sig := %s; b_dataType := %s; b_data := %s |}",
		cb(it[0].B), cb(it[1].B), cb(it[2].B), opt(it[3]),
		cb(it[4].B), cb(it[5].B), opt(it[6]), opt(it[7]),
		cb(it[8].B), opt(it[9]), coqTData(&dv)), true
}

// ---------- comparing the observables the property names ----------

func bigEq(a, b *big.Int) bool {
	if a == nil || b == nil {
		return a == nil && b == nil
	}
	return a.Cmp(b) == 0
}

func sameObservables(a, b *obsT) string {
	switch {
	case !bytes.Equal(a.ID, b.ID):
		return fmt.Sprintf("id %x became %x", a.ID, b.ID)
	case !bytes.Equal(a.Vals.From, b.Vals.From):
		return "from changed"
	case !bytes.Equal(a.Vals.To, b.Vals.To):
		return "to changed"
	case !bigEq(a.Vals.Value, b.Vals.Value):
		return "value changed"
	case !bigEq(a.Vals.StepLimit, b.Vals.StepLimit):
		return "stepLimit changed"
	case a.Vals.Timestamp != b.Vals.Timestamp:
		return "timestamp changed"
	case !bigEq(a.Vals.Nonce, b.Vals.Nonce):
		return "nonce changed"
	case (a.Vals.NID == nil) != (b.Vals.NID == nil) || (a.Vals.NID != nil && *a.Vals.NID != *b.Vals.NID):
		return "nid changed"
	case (a.Vals.DataType == nil) != (b.Vals.DataType == nil) || (a.Vals.DataType != nil && *a.Vals.DataType != *b.Vals.DataType):
		return "dataType changed"
	case a.Vals.HasData != b.Vals.HasData || !reflect.DeepEqual(a.Vals.Data, b.Vals.Data):
		return "data changed"
	case !bytes.Equal(a.F.SigRSV, b.F.SigRSV) || a.F.SigNil != b.F.SigNil:
		return "signature changed"
	}
	return ""
}

func marshalTx(tx transaction.Transaction) (js []byte, err error) {
	if p := hxlib.Catch(func() { js, err = json.Marshal(tx) }); p != "" {
		return nil, fmt.Errorf("panic: %s", p)
	}
	return
}
