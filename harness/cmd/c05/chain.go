package main

// End-to-end: the commit vote list for block 1 of a fixture chain, carried by
// block 2, through BlockManager.Propose (votes handed over by consensus) and
// through BlockManager.Import (block received from a peer / fast sync / import).
// Both go through block/block.go verifyProofForLastBlock.

import (
	"bytes"
	"encoding/hex"
	"encoding/json"
	"fmt"
	"math/rand"
	"os"
	"strings"
	"syscall"

	"github.com/icon-project/goloop/block"
	"github.com/icon-project/goloop/common"
	"github.com/icon-project/goloop/common/crypto"
	"github.com/icon-project/goloop/common/log"
	"github.com/icon-project/goloop/common/wallet"
	"github.com/icon-project/goloop/consensus"
	"github.com/icon-project/goloop/module"
	"github.com/icon-project/goloop/test"
	"verif/harness/hxlib"
)

type quietT struct{ errs []string }

func (t *quietT) Errorf(format string, args ...interface{}) {
	t.errs = append(t.errs, fmt.Sprintf(format, args...))
}
func (t *quietT) Logf(format string, args ...any) {}

// the fixture nodes log at trace level to stderr; keep that out of the run log
func silenceStderr() func() {
	saved, err := syscall.Dup(2)
	if err != nil {
		return func() {}
	}
	null, err := os.OpenFile(os.DevNull, os.O_WRONLY, 0)
	if err != nil {
		syscall.Close(saved)
		return func() {}
	}
	syscall.Dup2(int(null.Fd()), 2)
	null.Close()
	return func() {
		syscall.Dup2(saved, 2)
		syscall.Close(saved)
	}
}

type chainFix struct {
	t     *quietT
	P, I  *test.Node
	blk1  module.Block
	c     *bctx
	addrs [][]byte // validators designated for block 1, in the chain's order
}

func genesisFor(kr *keyring, vals []int) string {
	var vs []string
	for _, k := range vals {
		vs = append(vs, fmt.Sprintf("%q", kr.w[k].Address().String()))
	}
	return fmt.Sprintf(`{
		"accounts": [
			{"name": "treasury", "address": "hx1000000000000000000000000000000000000000", "balance": "0x0"},
			{"name": "god", "address": "hx0000000000000000000000000000000000000000", "balance": "0x0"}
		],
		"message": "",
		"nid": "0x1",
		"chain": {"validatorList": [ %s ]}
	}`, strings.Join(vs, ", "))
}

func nodeWallet(label string) module.Wallet {
	for i := 0; ; i++ {
		sk, err := crypto.ParsePrivateKey(crypto.SHA3Sum256([]byte(fmt.Sprintf("verif-c05-node|%s|%d", label, i))))
		if err != nil {
			continue
		}
		w, err := wallet.NewFromPrivateKey(sk)
		if err == nil {
			return w
		}
	}
}

func readerFor(blk module.Block) *bytes.Buffer {
	var buf bytes.Buffer
	if err := blk.Marshal(&buf); err != nil {
		panic(err)
	}
	return &buf
}

func newChainFix(kr *keyring, vals []int, round int32, ps *consensus.PartSetIDAndAppData) (*chainFix, error) {
	t := &quietT{}
	gs := genesisFor(kr, vals)
	f := &chainFix{t: t}
	// fixed node wallets: the proposer address is part of block 1, and a replay must
	// rebuild the same block id
	f.P = test.NewNode(t, test.UseGenesis(gs), test.UseWallet(nodeWallet("P")))
	f.I = test.NewNode(t, test.UseGenesis(gs), test.UseWallet(nodeWallet("I")))
	f.P.Chain.Logger().SetLevel(log.FatalLevel)
	f.I.Chain.Logger().SetLevel(log.FatalLevel)
	f.P.ProposeFinalizeBlock(consensus.NewEmptyCommitVoteList())
	f.I.ImportFinalizeBlockByReader(readerFor(f.P.LastBlock))
	if len(t.errs) > 0 {
		return f, fmt.Errorf("fixture set-up failed: %s", t.errs[0])
	}
	f.blk1 = f.P.LastBlock
	if f.blk1.Height() != 1 || !bytes.Equal(f.I.LastBlock.ID(), f.blk1.ID()) {
		return f, fmt.Errorf("fixture: unexpected block 1")
	}
	blk0, err := f.P.BM.GetBlockByHeight(0)
	if err != nil {
		return f, err
	}
	nv := blk0.NextValidators()
	if nv == nil || nv.Len() != len(vals) {
		return f, fmt.Errorf("fixture: genesis designates %v validators, wanted %d", nv, len(vals))
	}
	for i := 0; i < nv.Len(); i++ {
		v, _ := nv.Get(i)
		a := v.Address().Bytes()
		if !bytes.Equal(a, kr.addr[vals[i]]) {
			return f, fmt.Errorf("fixture: validator %d is %x, wanted key %d", i, a, vals[i])
		}
		f.addrs = append(f.addrs, append([]byte(nil), a...))
	}
	f.c = &bctx{kr: kr, vals: vals, h: 1, r: round, bid: f.blk1.ID(), ps: ps}
	return f, nil
}

func (f *chainFix) close() {
	hxlib.Catch(func() { f.P.Close() })
	hxlib.Catch(func() { f.I.Close() })
}

type chainVerdict struct {
	Accepted bool
	Panic    string
	Err      string
}

// propose block 2 on P with the given votes for block 1
func (f *chainFix) propose(cvl []byte) chainVerdict {
	var v chainVerdict
	cvs := consensus.NewCommitVoteSetFromBytes(cvl)
	if cvs == nil {
		v.Err = "undecodable"
		return v
	}
	v.Panic = hxlib.Catch(func() {
		bc, err, cbErr := test.ProposeBlock(f.P.BM, f.blk1.ID(), cvs)
		v.Accepted = err == nil && cbErr == nil
		if err != nil {
			v.Err = err.Error()
		} else if cbErr != nil {
			v.Err = cbErr.Error()
		}
		if bc != nil {
			bc.Dispose()
		}
	})
	return v
}

// a block 2 made by P (with a full valid list), its votes replaced, imported on I
type importer struct {
	h *block.V2HeaderFormat
	b *block.V2BodyFormat
}

func (f *chainFix) prepareImport(r *rand.Rand) (*importer, error) {
	full := baseListTS(r, f.c, f.c.n(), f.blk1.Timestamp())
	cvs := consensus.NewCommitVoteSetFromBytes(encodeList(f.c.r, f.c.ps, full))
	n0 := len(f.t.errs)
	f.P.ProposeFinalizeBlock(cvs)
	if len(f.t.errs) > n0 {
		return nil, fmt.Errorf("fixture: block 2 with a full valid list was not produced: %s", f.t.errs[n0])
	}
	h, b, err := block.FormatFromBlock(f.P.LastBlock)
	if err != nil {
		return nil, err
	}
	return &importer{h, b}, nil
}

func (f *chainFix) importWith(im *importer, cvl []byte) chainVerdict {
	var v chainVerdict
	cvs := consensus.NewCommitVoteSetFromBytes(cvl)
	if cvs == nil {
		v.Err = "undecodable"
		return v
	}
	h := *im.h
	b := *im.b
	h.VotesHash = cvs.Hash()
	h.Timestamp = cvs.Timestamp()
	b.Votes = cvs.Bytes()
	qt := &quietT{}
	v.Panic = hxlib.Catch(func() {
		bc, err, cbErr := test.ImportBlockByReader(qt, f.I.BM, block.NewBlockReaderFromFormat(&h, &b), 0)
		v.Accepted = err == nil && cbErr == nil
		if err != nil {
			v.Err = err.Error()
		} else if cbErr != nil {
			v.Err = cbErr.Error()
		}
		if bc != nil {
			bc.Dispose()
		}
	})
	return v
}

// timestamps that a real chain accepts: after block 1, small spread
func baseListTS(r *rand.Rand, c *bctx, k int, after int64) []item {
	pos := r.Perm(c.n())[:k]
	items := make([]item, 0, k+1)
	for _, p := range pos {
		items = append(items, c.valid(c.vals[p], after+1+r.Int63n(1000), r.Intn(2) == 0))
	}
	return items
}

type chainIn struct {
	T     string   `json:"t"`
	Seed  int64    `json:"seed"`
	Vals  []int    `json:"validator_keys"`
	Path  string   `json:"path"`
	Round int32    `json:"round"`
	PSW   uint64   `json:"ps_word"`
	PSH   string   `json:"ps_hash_hex"`
	PSNil bool     `json:"ps_nil"`
	BID   string   `json:"block1_id_hex"`
	TS    []int64  `json:"item_ts"`
	Raw   []string `json:"item_sig_hex"`
	What  string   `json:"what,omitempty"`
}

func oracleChain(f *chainFix, path string, cvl []byte, v chainVerdict) string {
	ok, _, why := certificateOK(1, f.blk1.ID(), f.addrs, false, cvl)
	if v.Panic != "" {
		return fmt.Sprintf("block %s panics on a commit vote list (%s): %s", path, why, v.Panic)
	}
	if v.Accepted && !ok {
		return fmt.Sprintf("block %s accepts a block whose commit vote list lacks >2/3 distinct valid signatures: %s", path, why)
	}
	if !v.Accepted && ok {
		return fmt.Sprintf("block %s rejects a block whose commit vote list has >2/3 distinct valid signatures: %s", path, v.Err)
	}
	return ""
}

var chainKinds = []string{"", "foreign-key", "wrong-round+1", "wrong-bid-bit", "wrong-ps-hash", "wrong-type-prevote",
	"wrong-timestamp", "wrong-height+1", "tamper-s", "unrec-empty", "unrec-zero65", "dup-same", "dup-newts"}

func genChain(x *hxlib.Ctx, kr *keyring) {
	ns := []int{4}
	if x.Tier == "thorough" {
		ns = []int{1, 2, 3, 4, 6, 7, 10}
	}
	if x.OracleOnly {
		ns = []int{1 + x.Rand.Intn(7)}
	}
	restore := silenceStderr()
	defer restore()
	for _, n := range ns {
		r := x.Sub("chain", n)
		vals := r.Perm(universe)[:n]
		h := make([]byte, 32)
		r.Read(h)
		ps := &consensus.PartSetIDAndAppData{CountWord: uint64(1 + r.Intn(4)), Hash: h}
		round := r.Int31n(4)
		var f *chainFix
		var err error
		if p := hxlib.Catch(func() { f, err = newChainFix(kr, vals, round, ps) }); p != "" {
			err = fmt.Errorf("fixture set-up panics: %s", p)
		}
		if err != nil {
			// the fixture is built with the unmodified test package on every run; if block 1
			// (empty vote list for the genesis block) cannot be produced and imported, the
			// genesis clause of the property is broken
			x.Note("chain n=%d: %v", n, err)
			x.Emit(hxlib.Case{Kind: "chain-setup", Key: fmt.Sprint(n),
				Input:      chainIn{T: "chain-setup", Seed: x.Seed, Vals: vals, Round: round, PSW: ps.CountWord, PSH: hex.EncodeToString(ps.Hash)},
				Nontrivial: true,
				OracleErr:  fmt.Sprintf("a chain whose block 1 carries the empty commit vote list for the genesis block cannot be built (n=%d validators): %v", n, err)})
			if f != nil && f.P != nil && f.I != nil {
				f.close()
			}
			continue
		}
		type cand struct {
			kind  string
			items []item
		}
		var cands []cand
		fl := 2 * n / 3
		for _, k := range []int{fl, fl + 1, n} {
			if k > n {
				continue
			}
			for _, kind := range chainKinds {
				base := baseListTS(r, f.c, k, f.blk1.Timestamp())
				if kind == "" {
					cands = append(cands, cand{fmt.Sprintf("subset/%s", rel(k, fl)), base})
					if k > fl {
						for q := 0; q < 3; q++ {
							cands = append(cands, cand{fmt.Sprintf("subset/%s", rel(k, fl)), baseListTS(r, f.c, k, f.blk1.Timestamp())})
						}
					}
					continue
				}
				signer := f.c.vals[r.Intn(n)]
				for _, p := range r.Perm(n) {
					in := false
					for _, b := range base {
						if b.GT.Key == f.c.vals[p] {
							in = true
						}
					}
					if !in {
						signer = f.c.vals[p]
						break
					}
				}
				bad, ok := badItem(r, f.c, kind, signer, base)
				if !ok {
					continue
				}
				// keep the block timestamp (median of item timestamps) sane
				if bad.GT.Kind != "signed" || kind == "dup-same" {
					// timestamp is free for unsigned items; duplicates keep theirs
					if kind != "dup-same" {
						bad.TS = f.blk1.Timestamp() + 1 + r.Int63n(1000)
					}
				} else {
					// re-make the signed bad item with a sane timestamp
					m := bad.GT.Msg
					d := bad.TS - m.TS
					m.TS = f.blk1.Timestamp() + 2 + r.Int63n(1000)
					bad = signedOver(f.c, bad.GT.Key, m.TS+d, m, r.Intn(2) == 0)
				}
				cands = append(cands, cand{fmt.Sprintf("%s/add/%s", kind, rel(k, fl)), insertAt(base, r.Intn(len(base)+1), bad)})
			}
		}
		emit := func(path string, cd cand, cvl []byte, v chainVerdict) {
			in := chainIn{T: "chain", Seed: x.Seed, Vals: vals, Path: path, Round: round, PSW: ps.CountWord,
				PSH: hex.EncodeToString(ps.Hash), BID: hex.EncodeToString(f.blk1.ID()), What: cd.kind}
			for _, it := range cd.items {
				in.TS = append(in.TS, it.TS)
				in.Raw = append(in.Raw, hex.EncodeToString(it.Raw))
			}
			cs := hxlib.Case{Kind: "chain-" + path + "/" + cd.kind, Input: in, Nontrivial: len(cd.items) > 0,
				OracleErr: oracleChain(f, path, cvl, v)}
			if !x.OracleOnly {
				cs.Coq = fmt.Sprintf("(let b := %s in let p := %s in CChain 1 %s b p %s %s %s)", coqHexBytes(f.c.bid), coqPS(ps),
					zlit(int64(round)), coqKeys(vals), coqItems(cd.items, coqEnv{f.c.bid, ps}), hxlib.CoqBool(v.Accepted && v.Panic == ""))
			}
			x.Emit(cs)
		}
		for _, cd := range cands {
			cvl := encodeList(round, ps, cd.items)
			emit("propose", cd, cvl, f.propose(cvl))
		}
		var im *importer
		if p := hxlib.Catch(func() { im, err = f.prepareImport(r) }); p != "" {
			err = fmt.Errorf("producing block 2 with a full valid list panics: %s", p)
		}
		if err != nil {
			x.Note("chain n=%d import part skipped: %v", n, err)
		} else {
			for _, cd := range cands {
				cvl := encodeList(round, ps, cd.items)
				emit("import", cd, cvl, f.importWith(im, cvl))
			}
		}
		f.close()
	}
}

func replayChain(raw json.RawMessage) string {
	var in chainIn
	if err := json.Unmarshal(raw, &in); err != nil {
		return "bad replay input: " + err.Error()
	}
	restore := silenceStderr()
	defer restore()
	kr := newKeyring(in.Seed, "c05")
	var ps *consensus.PartSetIDAndAppData
	if !in.PSNil {
		h, _ := hex.DecodeString(in.PSH)
		ps = &consensus.PartSetIDAndAppData{CountWord: in.PSW, Hash: h}
	}
	var f *chainFix
	var err error
	if p := hxlib.Catch(func() { f, err = newChainFix(kr, in.Vals, in.Round, ps) }); p != "" {
		err = fmt.Errorf("fixture set-up panics: %s", p)
	}
	if err != nil {
		return fmt.Sprintf("a chain whose block 1 carries the empty commit vote list for the genesis block cannot be built (n=%d validators): %v", len(in.Vals), err)
	}
	if in.T == "chain-setup" {
		f.close()
		return ""
	}
	defer f.close()
	if hex.EncodeToString(f.blk1.ID()) != in.BID {
		// the saved signatures are over another block id; nothing can be concluded
		fmt.Fprintln(os.Stderr, "note: the rebuilt fixture has another block 1 id; this saved case cannot be judged on this tree")
		return ""
	}
	var items []item
	for i := range in.TS {
		b, _ := hex.DecodeString(in.Raw[i])
		items = append(items, item{TS: in.TS[i], Raw: b})
	}
	cvl := encodeList(in.Round, ps, items)
	if in.Path == "propose" {
		return oracleChain(f, "propose", cvl, f.propose(cvl))
	}
	var im *importer
	if p := hxlib.Catch(func() { im, err = f.prepareImport(rand.New(rand.NewSource(in.Seed))) }); p != "" {
		err = fmt.Errorf("producing block 2 with a full valid list panics: %s", p)
	}
	if err != nil {
		return "cannot rebuild the fixture: " + err.Error()
	}
	return oracleChain(f, "import", cvl, f.importWith(im, cvl))
}

var _ = common.HexPre
