// c05: CommitVoteList.VerifyBlock (and block proposal / import on a fixture
// chain) against Model_CommitVoteList, with real secp256k1 keys.
//
// The harness makes every key and every signature itself, so it knows for each
// item of a list what it is: a correct signature of key k over the vote message
// m (Signed), a byte string that recovers to nobody's address (Junk), or one
// that does not recover (Unrec).  That ground truth goes to the model; the
// implementation has to reach the same decision by recovering keys.
package main

import (
	"bytes"
	"encoding/hex"
	"encoding/json"
	"fmt"
	"math"
	"math/rand"
	"os"
	"strings"

	"github.com/icon-project/goloop/common"
	"github.com/icon-project/goloop/common/codec"
	"github.com/icon-project/goloop/common/crypto"
	"github.com/icon-project/goloop/common/db"
	"github.com/icon-project/goloop/common/wallet"
	"github.com/icon-project/goloop/consensus"
	"github.com/icon-project/goloop/module"
	"github.com/icon-project/goloop/service/state"
	"verif/harness/hxlib"
)

// ---------------------------------------------------------------------------
// the signed message, in the harness's own encoding (not the implementation's
// byteser): exactly Height, Round, Type, BlockID, part-set id word + hash,
// Timestamp, as one RLP list.
// ---------------------------------------------------------------------------

type voteMsg struct {
	H   int64
	R   int32
	T   byte // 0 prevote, 1 precommit
	BID []byte
	PS  *consensus.PartSetIDAndAppData
	TS  int64
}

func (m voteMsg) hash() []byte {
	return crypto.SHA3Sum256(codec.BC.MustMarshalToBytes(&m))
}

func (m voteMsg) equal(o voteMsg) bool {
	if m.H != o.H || m.R != o.R || m.T != o.T || m.TS != o.TS || !bytes.Equal(m.BID, o.BID) {
		return false
	}
	if (m.PS == nil) != (o.PS == nil) {
		return false
	}
	return m.PS == nil || (m.PS.CountWord == o.PS.CountWord && bytes.Equal(m.PS.Hash, o.PS.Hash))
}

// a byte string as one hexadecimal N literal unfolded by lib.Bytes.be_bytes
// (parsing hundreds of list cells per case dominates the Coq run otherwise)
func coqHexBytes(b []byte) string {
	if len(b) == 0 {
		return "[]"
	}
	return fmt.Sprintf("(hx %d 0x%x)", len(b), b)
}

func coqPS(ps *consensus.PartSetIDAndAppData) string {
	if ps == nil {
		return "None"
	}
	return fmt.Sprintf("(Some (%d, %s))", ps.CountWord, coqHexBytes(ps.Hash))
}

// Coq terms are printed inside `let b := <block id> in let p := <part-set id> in …`
// (see coqVerify): fields equal to the list's own are printed as the bound names.
type coqEnv struct {
	bid []byte
	ps  *consensus.PartSetIDAndAppData
}

func psEqual(a, b *consensus.PartSetIDAndAppData) bool {
	if (a == nil) != (b == nil) {
		return false
	}
	return a == nil || (a.CountWord == b.CountWord && bytes.Equal(a.Hash, b.Hash))
}

// numerals are printed bare: the argument scopes declared in Run_C05.v apply
func zlit(v int64) string {
	if v < 0 {
		return fmt.Sprintf("(%d)", v)
	}
	return fmt.Sprintf("%d", v)
}

func (m voteMsg) coqSigned(k int, env coqEnv) string {
	bid := coqHexBytes(m.BID)
	if bytes.Equal(m.BID, env.bid) {
		bid = "b"
	}
	ps := coqPS(m.PS)
	if psEqual(m.PS, env.ps) {
		ps = "p"
	}
	return fmt.Sprintf("Sg %d %s %s %s %s %s %s", k, zlit(m.H), zlit(int64(m.R)),
		hxlib.CoqBool(m.T == 1), bid, ps, zlit(m.TS))
}

// ground truth of one signature
type gtruth struct {
	Kind string // "signed" | "junk" | "unrec"
	Key  int
	Msg  voteMsg
}

type item struct {
	TS   int64
	Raw  []byte // signature bytes as they go on the wire ([R|S|V], or whatever the case wants)
	GT   gtruth
	Note string
}

func (it item) coq(env coqEnv) string {
	switch it.GT.Kind {
	case "signed":
		m := it.GT.Msg
		if m.TS == it.TS && m.T == 1 && bytes.Equal(m.BID, env.bid) && psEqual(m.PS, env.ps) {
			return fmt.Sprintf("Ok %s %s b p %d %s", zlit(m.H), zlit(int64(m.R)), it.GT.Key, zlit(it.TS))
		}
		return fmt.Sprintf("It %s (%s)", zlit(it.TS), m.coqSigned(it.GT.Key, env))
	case "junk":
		return fmt.Sprintf("It %s Junk", zlit(it.TS))
	default:
		return fmt.Sprintf("It %s Unrec", zlit(it.TS))
	}
}

// wire form of a commit vote list (what CommitVoteList.RLPDecodeSelf reads)
type wItem struct {
	Timestamp int64
	Signature []byte
}
type wList struct {
	Round int32
	PS    *consensus.PartSetIDAndAppData
	Items []wItem
}

func encodeList(round int32, ps *consensus.PartSetIDAndAppData, items []item) []byte {
	wl := wList{Round: round, PS: ps, Items: make([]wItem, 0, len(items))}
	for _, it := range items {
		wl.Items = append(wl.Items, wItem{it.TS, it.Raw})
	}
	return codec.BC.MustMarshalToBytes(&wl)
}

// ---------------------------------------------------------------------------
// keys
// ---------------------------------------------------------------------------

const universe = 14

type keyring struct {
	sk   []*crypto.PrivateKey
	w    []module.Wallet
	addr [][]byte
	memo map[string][]byte
}

func newKeyring(seed int64, label string) *keyring {
	kr := &keyring{memo: map[string][]byte{}}
	for i := 0; len(kr.sk) < universe; i++ {
		b := crypto.SHA3Sum256([]byte(fmt.Sprintf("verif-%s-key|%d|%d", label, seed, i)))
		sk, err := crypto.ParsePrivateKey(b)
		if err != nil {
			continue
		}
		w, err := wallet.NewFromPrivateKey(sk)
		if err != nil {
			continue
		}
		kr.sk = append(kr.sk, sk)
		kr.w = append(kr.w, w)
		kr.addr = append(kr.addr, append([]byte(nil), w.Address().Bytes()...))
	}
	return kr
}

// canImpl: can consensus.NewVoteMessage produce this message?  (its part-set
// app data is always nid 0 + a 16 bit count)
func canImpl(m voteMsg) bool {
	return m.PS == nil || m.PS.CountWord>>32 == 0
}

// sign returns [R|S|V].  path "own": harness encoding + crypto.NewSignature;
// path "impl": the implementation's own vote construction and signing.
func (kr *keyring) sign(k int, m voteMsg, impl bool) []byte {
	if impl && !canImpl(m) {
		impl = false
	}
	key := fmt.Sprintf("%d|%v|%x", k, impl, m.hash())
	if r, ok := kr.memo[key]; ok {
		return r
	}
	var raw []byte
	if impl {
		var psid *consensus.PartSetID
		cnt := 0
		if m.PS != nil {
			psid = &consensus.PartSetID{Count: uint16(m.PS.CountWord), Hash: m.PS.Hash}
			cnt = int(m.PS.CountWord >> 16)
		}
		vm := consensus.NewVoteMessage(kr.w[k], consensus.VoteType(m.T), m.H, m.R, m.BID, psid, m.TS, nil, nil, cnt)
		raw, _ = vm.Signature.Signature.SerializeRSV()
	} else {
		sig, err := crypto.NewSignature(m.hash(), kr.sk[k])
		if err != nil {
			panic(err)
		}
		raw, _ = sig.SerializeRSV()
	}
	kr.memo[key] = raw
	return raw
}

// recoverAddr: the harness's own view of a signature (same primitive, trusted base)
func recoverAddr(raw []byte, hash []byte) []byte {
	if len(raw) == 0 {
		return nil
	}
	sig, err := crypto.ParseSignature(raw)
	if err != nil {
		return nil
	}
	pk, err := sig.RecoverPublicKey(hash)
	if err != nil || pk == nil {
		return nil
	}
	return common.NewAccountAddressFromPublicKey(pk).Bytes()
}

// ---------------------------------------------------------------------------
// running the implementation
// ---------------------------------------------------------------------------

type stubBlock struct {
	module.BlockData
	h  int64
	id []byte
}

func (b *stubBlock) Height() int64 { return b.h }
func (b *stubBlock) ID() []byte    { return b.id }

func validatorList(addrs [][]byte) module.ValidatorList {
	vs := make([]module.Validator, 0, len(addrs))
	for _, a := range addrs {
		ad, err := common.NewAddress(a)
		if err != nil {
			panic(err)
		}
		v, err := state.ValidatorFromAddress(ad)
		if err != nil {
			panic(err)
		}
		vs = append(vs, v)
	}
	vl, err := state.ValidatorSnapshotFromSlice(db.NewMapDB(), vs)
	if err != nil {
		panic(err)
	}
	return vl
}

type verdict struct {
	Decoded  bool
	Accepted bool
	Voted    []bool
	Panic    string
}

func (v verdict) coq() string {
	switch {
	case v.Panic != "":
		return "OCrash"
	case v.Accepted:
		bs := make([]string, len(v.Voted))
		for i, b := range v.Voted {
			bs[i] = hxlib.CoqBool(b)
		}
		return "(OAccept " + hxlib.CoqList(bs) + ")"
	default:
		return "OReject"
	}
}

// runVerify: bytes -> CommitVoteSet -> VerifyBlock.  vals == nil && nilVals: nil ValidatorList.
func runVerify(height int64, bid []byte, vals [][]byte, nilVals bool, cvl []byte) verdict {
	var v verdict
	cvs := consensus.NewCommitVoteSetFromBytes(cvl)
	if cvs == nil {
		return v
	}
	v.Decoded = true
	var vl module.ValidatorList
	if !nilVals {
		vl = validatorList(vals)
	}
	v.Panic = hxlib.Catch(func() {
		voted, err := cvs.VerifyBlock(&stubBlock{h: height, id: bid}, vl)
		v.Accepted = err == nil
		v.Voted = voted
	})
	return v
}

// ---------------------------------------------------------------------------
// the direct oracle: the property statement checked on the bytes, without the
// model and without the ground truth
// ---------------------------------------------------------------------------

// certificateOK: does the list carry signatures over exactly (height, list
// round, bid, list part-set id, item timestamp, PRECOMMIT) from more than two
// thirds of distinct validators and nothing else?
func certificateOK(height int64, bid []byte, vals [][]byte, nilVals bool, cvl []byte) (ok bool, voted []bool, why string) {
	var wl wList
	if _, err := codec.BC.UnmarshalFromBytes(cvl, &wl); err != nil {
		return false, nil, "list does not decode: " + err.Error()
	}
	if height == 0 || nilVals {
		if len(wl.Items) == 0 {
			return true, nil, ""
		}
		return false, nil, "items although no validator set is designated (height 0 or nil validators)"
	}
	n := len(vals)
	voted = make([]bool, n)
	for i, it := range wl.Items {
		m := voteMsg{height, wl.Round, 1, bid, wl.PS, it.Timestamp}
		a := recoverAddr(it.Signature, m.hash())
		if a == nil {
			return false, nil, fmt.Sprintf("item %d: signature does not recover", i)
		}
		idx := -1
		for j, va := range vals {
			if bytes.Equal(va, a) {
				idx = j
				break
			}
		}
		if idx < 0 {
			return false, nil, fmt.Sprintf("item %d: not a signature of a validator over this block's precommit message (recovers to %x)", i, a)
		}
		if voted[idx] {
			return false, nil, fmt.Sprintf("item %d: validator %d signs twice", i, idx)
		}
		voted[idx] = true
	}
	if n == 0 {
		return true, voted, ""
	}
	if 3*len(wl.Items) > 2*n {
		return true, voted, ""
	}
	return false, nil, fmt.Sprintf("%d signers of %d validators is not more than two thirds", len(wl.Items), n)
}

func oracleVerify(height int64, bid []byte, vals [][]byte, nilVals bool, cvl []byte, v verdict) string {
	if !v.Decoded {
		return ""
	}
	ok, voted, why := certificateOK(height, bid, vals, nilVals, cvl)
	if v.Panic != "" {
		if strings.Contains(why, "does not recover") {
			return "VerifyBlock panics on unrecoverable signature instead of rejecting the list: " + v.Panic
		}
		return "VerifyBlock panics (" + why + "): " + v.Panic
	}
	if v.Accepted && !ok {
		return "commit vote list accepted without >2/3 distinct valid signatures: " + why
	}
	if !v.Accepted && ok {
		return "commit vote list with >2/3 distinct valid validator signatures over exactly this block is rejected"
	}
	if v.Accepted && len(voted) > 0 {
		if len(v.Voted) != len(voted) {
			return fmt.Sprintf("voted flags have length %d for %d validators", len(v.Voted), len(voted))
		}
		for i := range voted {
			if voted[i] != v.Voted[i] {
				return fmt.Sprintf("voted flag of validator %d is %v but the list %s its signature", i, v.Voted[i],
					map[bool]string{true: "carries", false: "does not carry"}[voted[i]])
			}
		}
	}
	return ""
}

// ---------------------------------------------------------------------------
// generation
// ---------------------------------------------------------------------------

type verifyIn struct {
	T       string   `json:"t"`
	Height  int64    `json:"height"`
	BID     string   `json:"bid_hex"`
	Vals    []string `json:"validators_hex"`
	NilVals bool     `json:"nil_validators"`
	CVL     string   `json:"commit_vote_list_hex"`
	What    string   `json:"what,omitempty"`
}

// one block + validator set
type bctx struct {
	kr   *keyring
	vals []int // key numbers by validator position
	h    int64
	r    int32
	bid  []byte
	ps   *consensus.PartSetIDAndAppData
}

func (c *bctx) n() int { return len(c.vals) }
func (c *bctx) msg(ts int64) voteMsg {
	return voteMsg{c.h, c.r, 1, c.bid, c.ps, ts}
}
func (c *bctx) valAddrs() [][]byte {
	r := make([][]byte, len(c.vals))
	for i, k := range c.vals {
		r[i] = c.kr.addr[k]
	}
	return r
}
func (c *bctx) isVal(k int) bool {
	for _, v := range c.vals {
		if v == k {
			return true
		}
	}
	return false
}
func (c *bctx) foreign(r *rand.Rand) int {
	for {
		k := r.Intn(universe)
		if !c.isVal(k) {
			return k
		}
	}
}

func (c *bctx) valid(k int, ts int64, impl bool) item {
	m := c.msg(ts)
	return item{TS: ts, Raw: c.kr.sign(k, m, impl), GT: gtruth{"signed", k, m}}
}

func signedOver(c *bctx, k int, itemTS int64, m voteMsg, impl bool) item {
	return item{TS: itemTS, Raw: c.kr.sign(k, m, impl), GT: gtruth{"signed", k, m}}
}

func randTS(r *rand.Rand) int64 {
	switch r.Intn(12) {
	case 0:
		return 0
	case 1:
		return -1 - r.Int63n(1000)
	case 2:
		return math.MaxInt64 - r.Int63n(3)
	default:
		return 1_600_000_000_000_000 + r.Int63n(1_000_000_000_000)
	}
}

func newCtx(r *rand.Rand, kr *keyring, n int) *bctx {
	c := &bctx{kr: kr}
	c.vals = r.Perm(universe)[:n]
	switch r.Intn(6) {
	case 0:
		c.h = 1
	case 1:
		c.h = math.MaxInt64 - 1
	default:
		c.h = 1 + r.Int63n(1<<40)
	}
	switch r.Intn(6) {
	case 0:
		c.r = math.MaxInt32 - 1
	case 1:
		c.r = -1 - r.Int31n(5)
	default:
		c.r = r.Int31n(6)
	}
	c.bid = make([]byte, 32)
	r.Read(c.bid)
	if r.Intn(8) == 0 {
		c.bid = c.bid[:2+r.Intn(20)]
	}
	switch r.Intn(8) {
	case 0:
		c.ps = nil
	case 1:
		h := make([]byte, 32)
		r.Read(h)
		c.ps = &consensus.PartSetIDAndAppData{CountWord: r.Uint64() | 1<<40, Hash: h}
	default:
		h := make([]byte, 32)
		r.Read(h)
		c.ps = &consensus.PartSetIDAndAppData{CountWord: uint64(1+r.Intn(5)) | uint64(r.Intn(3))<<16, Hash: h}
	}
	return c
}

var badKinds = []string{
	"foreign-key",
	"wrong-round+1", "wrong-round-1", "wrong-round-rand",
	"wrong-height+1", "wrong-height-1",
	"wrong-bid-bit", "wrong-bid-trunc", "wrong-bid-ext", "wrong-bid-rand",
	"wrong-ps-hash", "wrong-ps-count", "wrong-ps-appdata", "wrong-ps-nilness",
	"wrong-type-prevote", "wrong-timestamp",
	"tamper-r", "tamper-s", "tamper-v",
	"unrec-empty", "unrec-zero65", "unrec-noV", "unrec-v2",
	"dup-same", "dup-newts",
}

func flipBit(b []byte, r *rand.Rand, lo, hi int) []byte {
	c := append([]byte(nil), b...)
	p := lo + r.Intn(hi-lo)
	c[p] ^= 1 << uint(r.Intn(8))
	return c
}

// classify a byte string the harness did not produce by signing: does it recover?
func classify(c *bctx, raw []byte, m voteMsg) (gtruth, bool) {
	a := recoverAddr(raw, m.hash())
	if a == nil {
		return gtruth{Kind: "unrec"}, true
	}
	for _, va := range c.valAddrs() {
		if bytes.Equal(va, a) {
			return gtruth{}, false // astronomically unlikely; drop the case
		}
	}
	return gtruth{Kind: "junk"}, true
}

// badItem builds one item that is NOT a valid signature of a fresh validator
// over the context's message.  signer: a validator key; base: the items already
// in the list (for the duplicate kinds).
func badItem(r *rand.Rand, c *bctx, kind string, signer int, base []item) (item, bool) {
	ts := randTS(r)
	impl := r.Intn(2) == 0
	m := c.msg(ts)
	ps := func(f func(p *consensus.PartSetIDAndAppData)) *consensus.PartSetIDAndAppData {
		if c.ps == nil {
			return nil
		}
		p := &consensus.PartSetIDAndAppData{CountWord: c.ps.CountWord, Hash: append([]byte(nil), c.ps.Hash...)}
		f(p)
		return p
	}
	switch kind {
	case "foreign-key":
		return c.valid(c.foreign(r), ts, impl), true
	case "wrong-round+1":
		m.R++
	case "wrong-round-1":
		m.R--
	case "wrong-round-rand":
		m.R = r.Int31()
		if m.R == c.r {
			m.R++
		}
	case "wrong-height+1":
		m.H++
	case "wrong-height-1":
		m.H--
	case "wrong-bid-bit":
		m.BID = flipBit(c.bid, r, 0, len(c.bid))
	case "wrong-bid-trunc":
		m.BID = c.bid[:len(c.bid)-1]
	case "wrong-bid-ext":
		m.BID = append(append([]byte(nil), c.bid...), 0)
	case "wrong-bid-rand":
		m.BID = make([]byte, len(c.bid))
		r.Read(m.BID)
	case "wrong-ps-hash":
		if c.ps == nil {
			return item{}, false
		}
		m.PS = ps(func(p *consensus.PartSetIDAndAppData) { p.Hash = flipBit(p.Hash, r, 0, len(p.Hash)) })
	case "wrong-ps-count":
		if c.ps == nil {
			return item{}, false
		}
		m.PS = ps(func(p *consensus.PartSetIDAndAppData) { p.CountWord ^= 1 << uint(r.Intn(3)) })
	case "wrong-ps-appdata":
		if c.ps == nil {
			return item{}, false
		}
		m.PS = ps(func(p *consensus.PartSetIDAndAppData) { p.CountWord ^= 1 << uint(16+r.Intn(4)) })
	case "wrong-ps-nilness":
		if c.ps == nil {
			h := make([]byte, 32)
			r.Read(h)
			m.PS = &consensus.PartSetIDAndAppData{CountWord: 1, Hash: h}
		} else {
			m.PS = nil
		}
	case "wrong-type-prevote":
		m.T = 0
	case "wrong-timestamp":
		// signed over ts, carried with another timestamp
		its := ts + 1
		if r.Intn(2) == 0 {
			its = ts - 1
		}
		if ts == math.MaxInt64 {
			its = ts - 1
		}
		return signedOver(c, signer, its, m, impl), true
	case "tamper-r", "tamper-s", "tamper-v":
		raw := c.kr.sign(signer, m, impl)
		switch kind {
		case "tamper-r":
			raw = flipBit(raw, r, 0, 32)
		case "tamper-s":
			raw = flipBit(raw, r, 32, 64)
		default:
			raw = append([]byte(nil), raw...)
			raw[64] ^= 1
		}
		gt, ok := classify(c, raw, m)
		return item{TS: ts, Raw: raw, GT: gt}, ok
	case "unrec-empty":
		return item{TS: ts, Raw: []byte{}, GT: gtruth{Kind: "unrec"}}, true
	case "unrec-zero65":
		raw := make([]byte, 65)
		gt, ok := classify(c, raw, m)
		return item{TS: ts, Raw: raw, GT: gt}, ok
	case "unrec-noV":
		raw := c.kr.sign(signer, m, impl)[:64]
		gt, ok := classify(c, raw, m)
		return item{TS: ts, Raw: raw, GT: gt}, ok
	case "unrec-v2":
		raw := append([]byte(nil), c.kr.sign(signer, m, impl)...)
		raw[64] = byte(2 + r.Intn(250))
		gt, ok := classify(c, raw, m)
		return item{TS: ts, Raw: raw, GT: gt}, ok
	case "dup-same":
		if len(base) == 0 {
			return item{}, false
		}
		return base[r.Intn(len(base))], true
	case "dup-newts":
		if len(base) == 0 {
			return item{}, false
		}
		b := base[r.Intn(len(base))]
		if b.GT.Kind != "signed" {
			return item{}, false
		}
		for ts == b.TS {
			ts = randTS(r)
		}
		return c.valid(b.GT.Key, ts, impl), true
	default:
		panic("unknown kind " + kind)
	}
	if m.equal(c.msg(ts)) {
		return item{}, false
	}
	return signedOver(c, signer, ts, m, impl), true
}

// baseList: k distinct validators, random order, each with its own timestamp
func baseList(r *rand.Rand, c *bctx, k int) []item {
	pos := r.Perm(c.n())[:k]
	items := make([]item, 0, k+1)
	for _, p := range pos {
		items = append(items, c.valid(c.vals[p], randTS(r), r.Intn(2) == 0))
	}
	return items
}

func insertAt(items []item, p int, it item) []item {
	res := make([]item, 0, len(items)+1)
	res = append(res, items[:p]...)
	res = append(res, it)
	res = append(res, items[p:]...)
	return res
}

func emitVerify(x *hxlib.Ctx, kind string, c *bctx, height int64, vals [][]byte, valKeys []int, nilVals bool, items []item) {
	cvl := encodeList(c.r, c.ps, items)
	v := runVerify(height, c.bid, vals, nilVals, cvl)
	if !v.Decoded {
		x.Note("list of kind %s did not decode; skipped", kind)
		return
	}
	in := verifyIn{T: "verify", Height: height, BID: hex.EncodeToString(c.bid), NilVals: nilVals,
		CVL: hex.EncodeToString(cvl), What: kind}
	for _, a := range vals {
		in.Vals = append(in.Vals, hex.EncodeToString(a))
	}
	cs := hxlib.Case{Kind: kind, Input: in,
		Nontrivial: len(items) > 0 && len(vals) > 0 && height != 0,
		OracleErr:  oracleVerify(height, c.bid, vals, nilVals, cvl, v)}
	if !x.OracleOnly {
		cs.Coq = coqVerify(c, height, valKeys, nilVals, items, v.coq())
	}
	x.Emit(cs)
}

// ---- several VerifyBlock calls on ONE decoded list object, each with its own block ----

type blockRef struct {
	H   int64  `json:"height"`
	BID string `json:"bid_hex"`
}
type verifySeqIn struct {
	T      string     `json:"t"`
	Vals   []string   `json:"validators_hex"`
	CVL    string     `json:"commit_vote_list_hex"`
	Blocks []blockRef `json:"blocks"` // one call per entry, in order
	What   string     `json:"what,omitempty"`
}

func runVerifySeq(vals [][]byte, cvl []byte, hs []int64, bids [][]byte) (bool, []verdict) {
	cvs := consensus.NewCommitVoteSetFromBytes(cvl)
	if cvs == nil {
		return false, nil
	}
	vl := validatorList(vals)
	var vs []verdict
	for k := range hs {
		v := verdict{Decoded: true}
		v.Panic = hxlib.Catch(func() {
			voted, err := cvs.VerifyBlock(&stubBlock{h: hs[k], id: bids[k]}, vl)
			v.Accepted = err == nil
			v.Voted = voted
		})
		vs = append(vs, v)
	}
	return true, vs
}

func oracleVerifySeq(vals [][]byte, cvl []byte, hs []int64, bids [][]byte, vs []verdict) string {
	for k, v := range vs {
		if msg := oracleVerify(hs[k], bids[k], vals, false, cvl, v); msg != "" {
			return fmt.Sprintf("call %d of %d on one commit vote list object: %s", k+1, len(vs), msg)
		}
	}
	return ""
}

func emitVerifySeq(x *hxlib.Ctx, kind string, c *bctx, items []item, hs []int64, bids [][]byte) {
	cvl := encodeList(c.r, c.ps, items)
	ok, vs := runVerifySeq(c.valAddrs(), cvl, hs, bids)
	if !ok {
		return
	}
	in := verifySeqIn{T: "verifyseq", CVL: hex.EncodeToString(cvl), What: kind}
	for _, a := range c.valAddrs() {
		in.Vals = append(in.Vals, hex.EncodeToString(a))
	}
	for k := range hs {
		in.Blocks = append(in.Blocks, blockRef{hs[k], hex.EncodeToString(bids[k])})
	}
	cs := hxlib.Case{Kind: kind, Input: in, Nontrivial: len(items) > 0, OracleErr: oracleVerifySeq(c.valAddrs(), cvl, hs, bids, vs)}
	if !x.OracleOnly {
		var cl []string
		for k := range hs {
			bid := coqHexBytes(bids[k])
			if bytes.Equal(bids[k], c.bid) {
				bid = "b"
			}
			cl = append(cl, fmt.Sprintf("Cl %s %s %s", zlit(hs[k]), bid, vs[k].coq()))
		}
		cs.Coq = fmt.Sprintf("(let b := %s in let p := %s in CVerifySeq %s p (Some %s) %s %s)", coqHexBytes(c.bid), coqPS(c.ps),
			zlit(int64(c.r)), coqKeys(c.vals), coqItems(items, coqEnv{c.bid, c.ps}), hxlib.CoqList(cl))
	}
	x.Emit(cs)
}

func replayVerifySeq(in verifySeqIn) string {
	cvl, _ := hex.DecodeString(in.CVL)
	vals := [][]byte{}
	for _, s := range in.Vals {
		b, _ := hex.DecodeString(s)
		vals = append(vals, b)
	}
	var hs []int64
	var bids [][]byte
	for _, b := range in.Blocks {
		id, _ := hex.DecodeString(b.BID)
		hs = append(hs, b.H)
		bids = append(bids, id)
	}
	ok, vs := runVerifySeq(vals, cvl, hs, bids)
	if !ok {
		return ""
	}
	return oracleVerifySeq(vals, cvl, hs, bids, vs)
}

func coqItems(items []item, env coqEnv) string {
	its := make([]string, len(items))
	for i, it := range items {
		its[i] = it.coq(env)
	}
	return hxlib.CoqList(its)
}

func coqKeys(valKeys []int) string {
	ks := make([]string, len(valKeys))
	for i, k := range valKeys {
		ks[i] = fmt.Sprintf("%d", k)
	}
	return hxlib.CoqList(ks)
}

func coqVerify(c *bctx, height int64, valKeys []int, nilVals bool, items []item, obs string) string {
	vals := "None"
	if !nilVals {
		vals = "(Some " + coqKeys(valKeys) + ")"
	}
	return fmt.Sprintf("(let b := %s in let p := %s in CVerify %s %s b p %s %s %s)", coqHexBytes(c.bid), coqPS(c.ps),
		zlit(height), zlit(int64(c.r)), vals, coqItems(items, coqEnv{c.bid, c.ps}), obs)
}

func gen(x *hxlib.Ctx) {
	r := x.Rand
	kr := newKeyring(x.Seed, "c05")

	// 0. corpus: minimised past failures run first
	runCorpus(x)

	// 1. enoughVote itself
	lim := 13
	if x.Tier == "thorough" {
		lim = 61
	}
	for voters := 0; voters < lim; voters++ {
		for voted := 0; voted <= voters+1; voted++ {
			got := consensus.VerifEnoughVote(voted, voters)
			msg := ""
			if voters > 0 && got != (3*voted > 2*voters) {
				msg = fmt.Sprintf("enoughVote(%d,%d)=%v but 3*voted>2*voters is %v", voted, voters, got, 3*voted > 2*voters)
			}
			x.Emit(hxlib.Case{Kind: "enoughVote", Coq: fmt.Sprintf("(CEnough %d %d %s)", voted, voters, hxlib.CoqBool(got)),
				Input: map[string]interface{}{"t": "enough", "voted": voted, "voters": voters}, Nontrivial: voters > 0, OracleErr: msg})
		}
	}

	// 2. lists against validator sets of 1..10 members
	rounds := x.N(1)
	for rep := 0; rep < rounds; rep++ {
		for n := 1; n <= 10; n++ {
			c := newCtx(r, kr, n)
			f := 2 * n / 3
			ks := map[int]bool{0: true, 1: true, f - 1: true, f: true, f + 1: true, f + 2: true, n: true, n - 1: true}
			for k := 0; k <= n; k++ {
				if !ks[k] {
					continue
				}
				critical := k == f || k == f+1
				// plain subsets (several orders at the boundary)
				reps := 1
				if critical {
					reps = 3
				}
				if k > f {
					reps = 5
				}
				for q := 0; q < reps; q++ {
					emitVerify(x, fmt.Sprintf("subset/%s", rel(k, f)), c, c.h, c.valAddrs(), c.vals, false, baseList(r, c, k))
				}
				for _, kind := range badKinds {
					if !critical && r.Intn(5) != 0 {
						continue
					}
					for _, mode := range []string{"add", "replace"} {
						base := baseList(r, c, k)
						if mode == "replace" && k == 0 {
							continue
						}
						// the signer of the bad item: a validator outside the base if there is one
						signer := c.vals[r.Intn(n)]
						for _, p := range r.Perm(n) {
							in := false
							for _, b := range base {
								if b.GT.Key == c.vals[p] {
									in = true
								}
							}
							if !in {
								signer = c.vals[p]
								break
							}
						}
						var items []item
						if mode == "replace" {
							p := r.Intn(len(base))
							rest := append(append([]item(nil), base[:p]...), base[p+1:]...)
							signer = base[p].GT.Key
							bad, ok := badItem(r, c, kind, signer, rest)
							if !ok {
								continue
							}
							items = insertAt(rest, r.Intn(len(rest)+1), bad)
						} else {
							bad, ok := badItem(r, c, kind, signer, base)
							if !ok {
								continue
							}
							items = insertAt(base, r.Intn(len(base)+1), bad)
						}
						emitVerify(x, fmt.Sprintf("%s/%s/%s", kind, mode, rel(k, f)), c, c.h, c.valAddrs(), c.vals, false, items)
					}
				}
			}
			// two timestamps exchanged between two valid items
			if n >= 2 {
				base := baseList(r, c, n)
				base[0].TS, base[1].TS = base[1].TS, base[0].TS
				if base[0].TS != base[1].TS {
					emitVerify(x, "swap-timestamps", c, c.h, c.valAddrs(), c.vals, false, base)
				}
			}
			// signatures of the right validators for another validator set's block: all valid, other block
			{
				c2 := newCtx(r, kr, n)
				c2.vals = c.vals
				items := baseList(r, c2, n)
				// presented under c's header (round / part set of c), for c's block
				emitVerify(x, "all-valid-for-other-block", c, c.h, c.valAddrs(), c.vals, false, items)
			}
			// one list object verified against several blocks in a row
			{
				f := 2 * n / 3
				ob := flipBit(c.bid, r, 0, len(c.bid))
				oh := c.h + 1
				for _, k := range []int{f, f + 1, n} {
					if k > n {
						continue
					}
					emitVerifySeq(x, "verifyseq/right-other-right/"+rel(k, f), c, baseList(r, c, k),
						[]int64{c.h, c.h, oh, c.h}, [][]byte{c.bid, ob, c.bid, c.bid})
					emitVerifySeq(x, "verifyseq/other-right/"+rel(k, f), c, baseList(r, c, k),
						[]int64{oh, c.h, c.h}, [][]byte{c.bid, ob, c.bid})
				}
			}
			// no designated validator set
			full := baseList(r, c, n)
			emitVerify(x, "height0/empty", c, 0, c.valAddrs(), c.vals, false, nil)
			c0 := *c
			c0.h = 0
			emitVerify(x, "height0/signed-for-height0", &c0, 0, c.valAddrs(), c.vals, false, baseList(r, &c0, n))
			emitVerify(x, "height0/one-item", &c0, 0, c.valAddrs(), c.vals, false, baseList(r, &c0, 1))
			emitVerify(x, "nil-validators/empty", c, c.h, nil, nil, true, nil)
			emitVerify(x, "nil-validators/items", c, c.h, nil, nil, true, full[:1+r.Intn(n)])
			emitVerify(x, "no-validators/empty", c, c.h, [][]byte{}, []int{}, false, nil)
			emitVerify(x, "no-validators/items", c, c.h, [][]byte{}, []int{}, false, full[:1])
		}
	}

	// 3. the same decision reached through block proposal and block import
	genChain(x, kr)

	// 4. the fast-sync path: block + list handed to a started consensus engine
	genFastSync(x, kr)

	// canaries: wrong observations the model must flag
	{
		c := newCtx(r, kr, 4)
		items := baseList(r, c, 3)
		x.Emit(hxlib.Case{Kind: "canary", Canary: true, Coq: coqVerify(c, c.h, c.vals, false, items, "OReject")})
		x.Emit(hxlib.Case{Kind: "canary", Canary: true, Coq: coqVerify(c, c.h, c.vals, false, items[:2], "(OAccept [true; true; false; false])")})
		x.Emit(hxlib.Case{Kind: "canary", Canary: true, Coq: "(CEnough 2 3 true)"})
		x.Emit(hxlib.Case{Kind: "canary", Canary: true, Coq: "(CChain 1 0 [] None [1] [] true)"})
		x.Emit(hxlib.Case{Kind: "canary", Canary: true, Coq: "(CVerifySeq 0 None (Some [1]) [] [Cl 1 [] OReject; Cl 2 [] (OAccept [false])])"})
		x.Emit(hxlib.Case{Kind: "canary", Canary: true, Coq: "(CFastSync 1 0 [] None (1, []) [1] [] true)"})
		x.Emit(hxlib.Case{Kind: "canary", Canary: true, Coq: "(CFastSyncH [Pv 0 1 5] 1 0 [] None 2 [2] [1] [] true)"})
	}
}

func rel(k, f int) string {
	switch {
	case k == f:
		return "k=floor(2n/3)"
	case k == f+1:
		return "k=floor(2n/3)+1"
	case k < f:
		return "k<floor(2n/3)"
	default:
		return "k>floor(2n/3)+1"
	}
}

// ---------------------------------------------------------------------------
// corpus and replay
// ---------------------------------------------------------------------------

func verifRoot() string {
	if d := os.Getenv("VERIF_ROOT"); d != "" {
		return d
	}
	return "/verif"
}

func replayVerify(in verifyIn) string {
	bid, _ := hex.DecodeString(in.BID)
	cvl, _ := hex.DecodeString(in.CVL)
	var vals [][]byte
	for _, s := range in.Vals {
		b, _ := hex.DecodeString(s)
		vals = append(vals, b)
	}
	if vals == nil && !in.NilVals {
		vals = [][]byte{}
	}
	v := runVerify(in.Height, bid, vals, in.NilVals, cvl)
	return oracleVerify(in.Height, bid, vals, in.NilVals, cvl, v)
}

func runCorpus(x *hxlib.Ctx) {
	dir := verifRoot() + "/corpus/C05"
	ents, err := os.ReadDir(dir)
	if err != nil {
		x.Note("no corpus directory %s", dir)
		return
	}
	for _, e := range ents {
		if !strings.HasSuffix(e.Name(), ".json") {
			continue
		}
		b, err := os.ReadFile(dir + "/" + e.Name())
		if err != nil {
			continue
		}
		var doc struct {
			Input json.RawMessage `json:"input"`
		}
		if json.Unmarshal(b, &doc) != nil || doc.Input == nil {
			x.Note("corpus file %s has no input", e.Name())
			continue
		}
		var in verifyIn
		if json.Unmarshal(doc.Input, &in) != nil || in.T != "verify" {
			continue
		}
		x.Emit(hxlib.Case{Kind: "corpus/" + strings.TrimSuffix(e.Name(), ".json"), Input: in, Key: e.Name(),
			Nontrivial: true, OracleErr: replayVerify(in)})
	}
}

func replay(raw json.RawMessage) string {
	var t struct {
		T string `json:"t"`
	}
	if err := json.Unmarshal(raw, &t); err != nil {
		return "bad replay input: " + err.Error()
	}
	switch t.T {
	case "verify":
		var in verifyIn
		if err := json.Unmarshal(raw, &in); err != nil {
			return "bad replay input: " + err.Error()
		}
		return replayVerify(in)
	case "verifyseq":
		var in verifySeqIn
		if err := json.Unmarshal(raw, &in); err != nil {
			return "bad replay input: " + err.Error()
		}
		return replayVerifySeq(in)
	case "enough":
		var in struct{ Voted, Voters int }
		json.Unmarshal(raw, &in)
		got := consensus.VerifEnoughVote(in.Voted, in.Voters)
		if in.Voters > 0 && got != (3*in.Voted > 2*in.Voters) {
			return fmt.Sprintf("enoughVote(%d,%d)=%v", in.Voted, in.Voters, got)
		}
		return ""
	case "chain", "chain-setup":
		return replayChain(raw)
	case "fastsync-history":
		var in histIn
		if err := json.Unmarshal(raw, &in); err != nil {
			return "bad replay input: " + err.Error()
		}
		return replayHist(in)
	case "fastsync", "fastsync-setup":
		var in fsIn
		if err := json.Unmarshal(raw, &in); err != nil {
			return "bad replay input: " + err.Error()
		}
		return replayFastSync(in)
	}
	return "unknown case type " + t.T
}

func main() {
	hxlib.Main(hxlib.Spec{
		ID: "C05",
		Rule: "validator sets of n=1..10 real secp256k1 keys in random order; for every n lists of k distinct valid precommit signatures for k in {0,1,f-1,f,f+1,f+2,n-1,n}, f=floor(2n/3), alone and with ONE more item added or one item replaced by: a foreign key's signature, a validator's signature over another round/height/block id/part-set hash/count/app data/nil-ness/vote type/timestamp, a bit-flipped r/s/v, an empty/zero/V-less/bad-V signature, a verbatim duplicate, a second signature of a signer (all kinds at k=f and k=f+1, a sample elsewhere); signatures made both by the harness's own encoding and by the implementation's vote constructor; height 0, nil and empty validator lists; one decoded list object verified against several blocks in a row (right/other id/other height/right, every call judged on its own); the same lists through BlockManager.Propose and Import on a fixture chain, and through the consensus engine's fast-sync entry (ReceiveBlockResult -> processBlock) on a syncing node for n=1..10 (threshold subsets on every n, all bad kinds on n=4), and multi-step histories on every n: precommits of round R for block B / for nil / for another block B2 gossiped first (OnReceive), then B or B2 delivered with an empty, single-signature, complementary or equivocating list of the same round; enoughVote on a grid. non-trivial = non-empty list against a non-empty validator set at height>0; distinct = distinct Coq case term",
		Gen:  gen, Replay: replay,
	})
}
