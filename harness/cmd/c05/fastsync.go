package main

// End-to-end, fast-sync path: block 1 of a fixture chain and a candidate commit
// vote list for it are handed to a started consensus engine the way the
// fast-sync client does (ReceiveBlockResult -> processBlock).  Observable: the
// block result is consumed or rejected.

import (
	"bytes"
	"encoding/hex"
	"fmt"
	"time"

	"github.com/icon-project/goloop/common/codec"
	"github.com/icon-project/goloop/common/log"
	"github.com/icon-project/goloop/consensus"
	"github.com/icon-project/goloop/consensus/fastsync"
	"github.com/icon-project/goloop/module"
	"github.com/icon-project/goloop/test"
	"verif/harness/hxlib"
)

type fakeBR struct {
	blk      module.BlockData
	votes    []byte
	consumed bool
	rejected bool
}

func (b *fakeBR) Block() module.BlockData { return b.blk }
func (b *fakeBR) Votes() []byte           { return b.votes }
func (b *fakeBR) Consume()                { b.consumed = true }
func (b *fakeBR) Reject()                 { b.rejected = true }

type blockReceiver interface {
	ReceiveBlockResult(br fastsync.BlockResult)
}

type fsFix struct {
	t     *quietT
	gs    string
	P     *test.Node
	P2    *test.Node // proposes another block of height 1 (B2) that is never voted by honest validators
	F     *test.Node // the syncing node, at height 1, holding no precommits
	blk1  module.Block
	real  *consensus.PartSetID
	blk2  module.BlockCandidate
	real2 *consensus.PartSetID
	addrs [][]byte
	kr    *keyring
	vals  []int
}

func newSyncNode(t *quietT, gs string) (*test.Node, error) {
	n0 := len(t.errs)
	nd := test.NewNode(t, test.UseGenesis(gs), test.UseWallet(nodeWallet("F")))
	nd.Chain.Logger().SetLevel(log.FatalLevel)
	if err := nd.CS.Start(); err != nil {
		return nd, err
	}
	if len(t.errs) > n0 {
		return nd, fmt.Errorf("%s", t.errs[n0])
	}
	if _, ok := nd.CS.(blockReceiver); !ok {
		return nd, fmt.Errorf("consensus engine has no ReceiveBlockResult")
	}
	return nd, nil
}

func newFsFix(kr *keyring, vals []int) (*fsFix, error) {
	t := &quietT{}
	f := &fsFix{t: t, gs: genesisFor(kr, vals), kr: kr, vals: vals}
	f.P = test.NewNode(t, test.UseGenesis(f.gs), test.UseWallet(nodeWallet("P")))
	f.P.Chain.Logger().SetLevel(log.FatalLevel)
	f.P.ProposeFinalizeBlock(consensus.NewEmptyCommitVoteList())
	if len(t.errs) > 0 {
		return f, fmt.Errorf("fixture set-up failed: %s", t.errs[0])
	}
	f.blk1 = f.P.LastBlock
	psb := consensus.NewPartSetBuffer(consensus.ConfigBlockPartSize)
	if err := f.blk1.MarshalHeader(psb); err != nil {
		return f, err
	}
	if err := f.blk1.MarshalBody(psb); err != nil {
		return f, err
	}
	f.real = psb.PartSet().ID()
	f.P2 = test.NewNode(t, test.UseGenesis(f.gs), test.UseWallet(nodeWallet("P2")))
	f.P2.Chain.Logger().SetLevel(log.FatalLevel)
	f.blk2 = f.P2.ProposeBlock(consensus.NewEmptyCommitVoteList())
	if len(t.errs) > 0 || f.blk2 == nil {
		return f, fmt.Errorf("fixture set-up failed (second block)")
	}
	psb2 := consensus.NewPartSetBuffer(consensus.ConfigBlockPartSize)
	if err := f.blk2.MarshalHeader(psb2); err != nil {
		return f, err
	}
	if err := f.blk2.MarshalBody(psb2); err != nil {
		return f, err
	}
	f.real2 = psb2.PartSet().ID()
	if bytes.Equal(f.blk2.ID(), f.blk1.ID()) || f.real2.Equal(f.real) {
		return f, fmt.Errorf("fixture: the two blocks of height 1 do not differ")
	}
	blk0, err := f.P.BM.GetBlockByHeight(0)
	if err != nil {
		return f, err
	}
	nv := blk0.NextValidators()
	if nv == nil || nv.Len() != len(vals) {
		return f, fmt.Errorf("fixture: genesis designates %v validators, wanted %d", nv, len(vals))
	}
	for i := 0; i < nv.Len(); i++ {
		v, _ := nv.Get(i)
		if !bytes.Equal(v.Address().Bytes(), kr.addr[vals[i]]) {
			return f, fmt.Errorf("fixture: validator %d is not key %d", i, vals[i])
		}
		f.addrs = append(f.addrs, append([]byte(nil), v.Address().Bytes()...))
	}
	f.F, err = newSyncNode(t, f.gs)
	return f, err
}

func (f *fsFix) close() {
	if f.P != nil {
		hxlib.Catch(func() { f.P.Close() })
	}
	if f.P2 != nil {
		hxlib.Catch(func() { f.P2.Close() })
	}
	if f.F != nil {
		hxlib.Catch(func() { f.F.Close() })
	}
}

// receive: hand (block 1, list) to the syncing node.  After a consumed block the
// node commits it; wait for that and replace the node by a fresh one.
func (f *fsFix) receive(cvl []byte) (consumed bool, pnc string, err error) {
	return f.receiveBlock(f.blk1, cvl)
}

func (f *fsFix) receiveBlock(blk module.BlockData, cvl []byte) (consumed bool, pnc string, err error) {
	br := &fakeBR{blk: blk, votes: cvl}
	pnc = hxlib.Catch(func() { f.F.CS.(blockReceiver).ReceiveBlockResult(br) })
	if pnc != "" {
		return false, pnc, nil
	}
	if br.consumed == br.rejected {
		return false, "", fmt.Errorf("block result neither consumed nor rejected exactly once (consumed=%v rejected=%v)", br.consumed, br.rejected)
	}
	if br.consumed {
		for i := 0; i < 400; i++ {
			if b, e := f.F.BM.GetLastBlock(); e == nil && b.Height() >= 1 {
				break
			}
			time.Sleep(5 * time.Millisecond)
		}
		hxlib.Catch(func() { f.F.Close() })
		f.F = nil
		f.F, err = newSyncNode(f.t, f.gs)
	}
	return br.consumed, "", err
}

// the property on the bytes, for this path: every item a validator's signature
// over exactly this block's precommit message, DISTINCT signers > 2/3, and the
// list votes for the block's own part set
func (f *fsFix) fsOK(cvl []byte) (bool, string) {
	var wl wList
	if _, err := codec.BC.UnmarshalFromBytes(cvl, &wl); err != nil {
		return false, "list does not decode"
	}
	n := len(f.addrs)
	seen := map[int]bool{}
	for i, it := range wl.Items {
		m := voteMsg{1, wl.Round, 1, f.blk1.ID(), wl.PS, it.Timestamp}
		a := recoverAddr(it.Signature, m.hash())
		idx := -1
		for j, va := range f.addrs {
			if a != nil && bytes.Equal(va, a) {
				idx = j
			}
		}
		if idx < 0 {
			return false, fmt.Sprintf("item %d is not a signature of a validator over this block's precommit message", i)
		}
		seen[idx] = true
	}
	if 3*len(seen) <= 2*n {
		return false, fmt.Sprintf("%d distinct signers of %d validators is not more than two thirds", len(seen), n)
	}
	if wl.PS == nil || uint16(wl.PS.CountWord) != f.real.Count || !bytes.Equal(wl.PS.Hash, f.real.Hash) {
		return false, "the votes are for another part set than the block's"
	}
	return true, ""
}

type fsIn struct {
	T     string   `json:"t"`
	Seed  int64    `json:"seed"`
	Vals  []int    `json:"validator_keys"`
	BID   string   `json:"block1_id_hex"`
	CVL   string   `json:"commit_vote_list_hex"`
	What  string   `json:"what,omitempty"`
}

func (f *fsFix) oracle(cvl []byte, consumed bool, pnc string) string {
	ok, why := f.fsOK(cvl)
	if pnc != "" {
		return fmt.Sprintf("fast-sync block processing panics on a commit vote list (%s): %s", why, pnc)
	}
	if consumed && !ok {
		return "fast sync commits a block whose commit vote list lacks >2/3 distinct valid signatures: " + why
	}
	if !consumed && ok {
		return "fast sync rejects a block whose commit vote list has >2/3 distinct valid signatures for its part set"
	}
	return ""
}

var fsKinds = []string{"", "", "foreign-key", "wrong-round+1", "wrong-bid-bit", "wrong-type-prevote", "wrong-timestamp",
	"wrong-height+1", "tamper-s", "unrec-empty", "unrec-zero65", "dup-same", "dup-newts", "other-part-set", "app-data"}

func genFastSync(x *hxlib.Ctx, kr *keyring) {
	// every validator count 1..10 (the multiples of three are where "more than two
	// thirds" and "at least two thirds" differ); the full set of bad-item kinds on
	// one of them (all of them in the thorough tier), the threshold subsets and the
	// history scenarios on all
	ns := []int{1, 2, 3, 4, 5, 6, 7, 8, 9, 10}
	full := map[int]bool{4: true}
	if x.Tier == "thorough" {
		for _, n := range ns {
			full[n] = true
		}
	}
	if x.OracleOnly {
		ns = []int{3, 6, 1 + x.Rand.Intn(10)}
	}
	restore := silenceStderr()
	defer restore()
	for _, n := range ns {
		r := x.Sub("fastsync", n)
		vals := r.Perm(universe)[:n]
		var f *fsFix
		var err error
		if p := hxlib.Catch(func() { f, err = newFsFix(kr, vals) }); p != "" {
			err = fmt.Errorf("fixture set-up panics: %s", p)
		}
		if err != nil {
			x.Note("fast-sync fixture n=%d: %v", n, err)
			x.Emit(hxlib.Case{Kind: "fastsync-setup", Key: fmt.Sprint(n), Input: fsIn{T: "fastsync-setup", Seed: x.Seed, Vals: vals},
				Nontrivial: true,
				OracleErr:  fmt.Sprintf("a syncing node on a chain whose block 1 carries the empty commit vote list for the genesis block cannot be set up (n=%d validators): %v", n, err)})
			if f != nil {
				f.close()
			}
			continue
		}
		fl := 2 * n / 3
		round := int32(0)
		broken := false
		for _, k := range []int{fl, fl + 1, n} {
			if k > n || broken {
				continue
			}
			for ki, kind := range fsKinds {
				if !full[n] && ki >= 2 && r.Intn(8) != 0 {
					continue
				}
				round++ // every list has its own round: precommits of refused lists stay in the node, by round
				ps := f.real.WithAppData(0)
				if kind == "app-data" {
					ps = f.real.WithAppData(uint64(1 + r.Intn(3)))
				}
				if kind == "other-part-set" {
					h := append([]byte(nil), f.real.Hash...)
					h[r.Intn(len(h))] ^= 1
					ps = (&consensus.PartSetID{Count: f.real.Count, Hash: h}).WithAppData(0)
				}
				c := &bctx{kr: kr, vals: vals, h: 1, r: round, bid: f.blk1.ID(), ps: ps}
				items := baseListTS(r, c, k, f.blk1.Timestamp())
				if kind != "" && kind != "app-data" && kind != "other-part-set" {
					signer := c.vals[r.Intn(n)]
					for _, p := range r.Perm(n) {
						in := false
						for _, b := range items {
							if b.GT.Key == c.vals[p] {
								in = true
							}
						}
						if !in {
							signer = c.vals[p]
							break
						}
					}
					bad, ok := badItem(r, c, kind, signer, items)
					if !ok {
						continue
					}
					items = insertAt(items, r.Intn(len(items)+1), bad)
				}
				cvl := encodeList(round, ps, items)
				consumed, pnc, err := f.receive(cvl)
				what := kind
				if what == "" {
					what = "subset"
				}
				what = fmt.Sprintf("%s/%s", what, rel(k, fl))
				in := fsIn{T: "fastsync", Seed: x.Seed, Vals: vals, BID: hex.EncodeToString(f.blk1.ID()), CVL: hex.EncodeToString(cvl), What: what}
				cs := hxlib.Case{Kind: "fastsync/" + what, Input: in, Nontrivial: len(items) > 0, OracleErr: f.oracle(cvl, consumed, pnc)}
				if !x.OracleOnly {
					cs.Coq = fmt.Sprintf("(let b := %s in let p := %s in CFastSync 1 %s b p (%d, %s) %s %s %s)", coqHexBytes(c.bid), coqPS(ps),
						zlit(int64(round)), f.real.Count, coqHexBytes(f.real.Hash), coqKeys(vals), coqItems(items, coqEnv{c.bid, ps}),
						hxlib.CoqBool(consumed && pnc == ""))
				}
				x.Emit(cs)
				if err != nil || pnc != "" {
					// the node is in an unknown state; stop this fixture
					x.Note("fast-sync fixture n=%d stopped: %v %s", n, err, pnc)
					broken = true
					break
				}
			}
		}
		if !broken {
			f.genHist(x, r)
		}
		f.close()
	}
}

func replayFastSync(in fsIn) string {
	restore := silenceStderr()
	defer restore()
	kr := newKeyring(in.Seed, "c05")
	var f *fsFix
	var err error
	if p := hxlib.Catch(func() { f, err = newFsFix(kr, in.Vals) }); p != "" {
		err = fmt.Errorf("fixture set-up panics: %s", p)
	}
	if f != nil {
		defer f.close()
	}
	if err != nil {
		return fmt.Sprintf("a syncing node on a chain whose block 1 carries the empty commit vote list for the genesis block cannot be set up (n=%d validators): %v", len(in.Vals), err)
	}
	if in.T == "fastsync-setup" {
		return ""
	}
	if hex.EncodeToString(f.blk1.ID()) != in.BID {
		return ""
	}
	cvl, _ := hex.DecodeString(in.CVL)
	consumed, pnc, _ := f.receive(cvl)
	return f.oracle(cvl, consumed, pnc)
}
