package main

// Fast sync with history: precommits of round R reach the syncing node by
// gossip first (consensus.OnReceive of vote messages), then a block of that
// height is delivered with a commit vote list of the SAME round.  The node's
// precommit vote set of round R then holds gossiped votes and the list's votes.

import (
	"bytes"
	"encoding/hex"
	"fmt"
	"math/rand"

	"github.com/icon-project/goloop/common/codec"
	"github.com/icon-project/goloop/consensus"
	"github.com/icon-project/goloop/module"
	"verif/harness/hxlib"
)

type fakePeerID []byte

func (p fakePeerID) Bytes() []byte                 { return p }
func (p fakePeerID) Equal(o module.PeerID) bool    { return bytes.Equal(p, o.Bytes()) }
func (p fakePeerID) String() string                { return hex.EncodeToString(p) }

type voteReceiver interface {
	OnReceive(pi module.ProtocolInfo, b []byte, id module.PeerID) (bool, error)
}

// decisions of a scenario: 0 nil, 1 block B (blk1), 2 block B2 (blk2)
type priorVote struct {
	Pos int   `json:"validator_position"`
	Dec int   `json:"decision"`
	TS  int64 `json:"ts"`
}

type histIn struct {
	T       string      `json:"t"`
	Seed    int64       `json:"seed"`
	Vals    []int       `json:"validator_keys"`
	Round   int32       `json:"round"`
	Prior   []priorVote `json:"gossiped_precommits"`
	Deliver int         `json:"delivered_block"` // 1 = B, 2 = B2
	Signers []int       `json:"list_signer_positions"`
	TSs     []int64     `json:"list_item_ts"`
	What    string      `json:"what,omitempty"`
}

func (f *fsFix) blockOf(dec int) (module.BlockData, *consensus.PartSetID) {
	if dec == 2 {
		return f.blk2, f.real2
	}
	return f.blk1, f.real
}

func (f *fsFix) gossip(round int32, pv priorVote) error {
	w := f.kr.w[f.vals[pv.Pos]]
	var vm *consensus.VoteMessage
	if pv.Dec == 0 {
		vm = consensus.NewVoteMessage(w, consensus.VoteTypePrecommit, 1, round,
			codec.MustMarshalToBytes(f.F.Chain.NID()), nil, pv.TS, nil, nil, 0)
	} else {
		blk, ps := f.blockOf(pv.Dec)
		vm = consensus.NewVoteMessage(w, consensus.VoteTypePrecommit, 1, round, blk.ID(), ps, pv.TS, nil, nil, 0)
	}
	var err error
	p := hxlib.Catch(func() {
		_, err = f.F.CS.(voteReceiver).OnReceive(consensus.ProtoVote, codec.MustMarshalToBytes(vm), fakePeerID{1, 2, 3, 4})
	})
	if p != "" {
		return fmt.Errorf("gossiped precommit makes the engine panic: %s", p)
	}
	return err
}

// run one scenario on a fresh syncing node
func (f *fsFix) runHist(in histIn) (consumed bool, pnc string, cvl []byte, items []item, c *bctx, err error) {
	if f.F != nil {
		hxlib.Catch(func() { f.F.Close() })
		f.F = nil
	}
	f.F, err = newSyncNode(f.t, f.gs)
	if err != nil {
		return
	}
	if _, ok := f.F.CS.(voteReceiver); !ok {
		err = fmt.Errorf("consensus engine has no OnReceive")
		return
	}
	for _, pv := range in.Prior {
		if e := f.gossip(in.Round, pv); e != nil {
			err = fmt.Errorf("gossiped precommit refused: %v", e)
			return
		}
	}
	blk, real := f.blockOf(in.Deliver)
	ps := real.WithAppData(0)
	c = &bctx{kr: f.kr, vals: f.vals, h: 1, r: in.Round, bid: blk.ID(), ps: ps}
	for j, pos := range in.Signers {
		items = append(items, c.valid(f.vals[pos], in.TSs[j], j%2 == 0))
	}
	cvl = encodeList(in.Round, ps, items)
	consumed, pnc, err = f.receiveBlock(blk, cvl)
	return
}

// the property for this history: a consumed block has valid precommits for
// exactly that block, part set and round from more than two thirds of distinct
// validators — counting what the node was given, by gossip or in the list
func (f *fsFix) histOracle(in histIn, consumed bool, pnc string) string {
	n := len(f.vals)
	signed := map[int]bool{}
	decOf := map[int]map[int]bool{}
	note := func(pos, dec int) {
		if decOf[pos] == nil {
			decOf[pos] = map[int]bool{}
		}
		decOf[pos][dec] = true
	}
	for _, pv := range in.Prior {
		note(pv.Pos, pv.Dec)
		if pv.Dec == in.Deliver {
			signed[pv.Pos] = true
		}
	}
	for _, pos := range in.Signers {
		note(pos, in.Deliver)
		signed[pos] = true
	}
	equivocation := false
	for _, m := range decOf {
		if len(m) > 1 {
			equivocation = true
		}
	}
	enough := 3*len(signed) > 2*n
	if pnc != "" {
		return "fast-sync block processing panics after gossiped precommits: " + pnc
	}
	if consumed && !enough {
		return fmt.Sprintf("fast sync commits a block for which only %d of %d validators precommitted (gossip and list together); the +2/3 precommits the node holds are for another decision", len(signed), n)
	}
	if !consumed && enough && !equivocation {
		return fmt.Sprintf("fast sync rejects a block for which %d of %d validators precommitted (gossip and list together)", len(signed), n)
	}
	return ""
}

func (f *fsFix) emitHist(x *hxlib.Ctx, in histIn) bool {
	consumed, pnc, _, items, c, err := f.runHist(in)
	if err != nil && c == nil {
		x.Note("fast-sync history scenario %s skipped: %v", in.What, err)
		return true
	}
	cs := hxlib.Case{Kind: "fastsync-history/" + in.What, Input: in, Nontrivial: true, OracleErr: f.histOracle(in, consumed, pnc)}
	if !x.OracleOnly {
		var pr []string
		for _, pv := range in.Prior {
			pr = append(pr, fmt.Sprintf("Pv %d %d %s", pv.Pos, pv.Dec, zlit(pv.TS)))
		}
		cs.Coq = fmt.Sprintf("(let b := %s in let p := %s in CFastSyncH %s 1 %s b p %d [%d] %s %s %s)", coqHexBytes(c.bid), coqPS(c.ps),
			hxlib.CoqList(pr), zlit(int64(in.Round)), in.Deliver, in.Deliver, coqKeys(f.vals), coqItems(items, coqEnv{c.bid, c.ps}),
			hxlib.CoqBool(consumed && pnc == ""))
	}
	x.Emit(cs)
	return err == nil && pnc == ""
}

// scenarios for one fixture
func (f *fsFix) genHist(x *hxlib.Ctx, r *rand.Rand) {
	n := len(f.vals)
	fl := 2 * n / 3
	ts := func() int64 { return f.blk1.Timestamp() + 1 + r.Int63n(1000) }
	mk := func(what string, round int32, prior []priorVote, deliver int, signers []int) histIn {
		in := histIn{T: "fastsync-history", Seed: x.Seed, Vals: f.vals, Round: round, Prior: prior, Deliver: deliver, Signers: signers, What: what}
		for range signers {
			in.TSs = append(in.TSs, ts())
		}
		return in
	}
	votes := func(pos []int, dec int) []priorVote {
		var l []priorVote
		for _, p := range pos {
			l = append(l, priorVote{p, dec, ts()})
		}
		return l
	}
	perm := r.Perm(n)
	q := fl + 1 // a quorum
	if q > n {
		return
	}
	round := func() int32 { return r.Int31n(3) }
	rest := perm[q:]
	var sc []histIn
	// +2/3 for B gossiped, then another block with a list that names its own part set
	sc = append(sc, mk("quorum-for-B/deliver-B2-empty-list", round(), votes(perm[:q], 1), 2, nil))
	one := perm[0]
	if len(rest) > 0 {
		one = rest[0]
	}
	sc = append(sc, mk("quorum-for-B/deliver-B2-one-signature", round(), votes(perm[:q], 1), 2, []int{one}))
	sc = append(sc, mk("quorum-for-B/deliver-B2-quorum-of-equivocators", round(), votes(perm[:q], 1), 2, r.Perm(n)[:q]))
	// the gossiped block itself: certified by what the node holds
	sc = append(sc, mk("quorum-for-B/deliver-B-empty-list", round(), votes(perm[:q], 1), 1, nil))
	// nil precommits
	sc = append(sc, mk("quorum-for-nil/deliver-B2-empty-list", round(), votes(perm[:q], 0), 2, nil))
	sc = append(sc, mk("quorum-for-nil/deliver-B-one-signature", round(), votes(perm[:q], 0), 1, []int{one}))
	// gossip and list add up
	for j := 0; j <= fl && j < q; j++ {
		if j != 0 && j != fl && j != q-1 && r.Intn(3) != 0 {
			continue
		}
		// union reaches a quorum exactly / misses it by one
		sc = append(sc, mk(fmt.Sprintf("partial-%d-for-B/deliver-B-rest-to-quorum", j), round(), votes(perm[:j], 1), 1, perm[j:q]))
		if q-1 > j {
			sc = append(sc, mk(fmt.Sprintf("partial-%d-for-B/deliver-B-one-short", j), round(), votes(perm[:j], 1), 1, perm[j:q-1]))
		} else {
			sc = append(sc, mk(fmt.Sprintf("partial-%d-for-B/deliver-B-empty-list", j), round(), votes(perm[:j], 1), 1, nil))
		}
	}
	// not yet a quorum for B, then a quorum of signatures for B2 (some by the same validators)
	if fl >= 1 {
		sc = append(sc, mk("partial-for-B/deliver-B2-quorum", round(), votes(perm[:fl], 1), 2, r.Perm(n)[:q]))
	}
	// one byzantine precommit for B2 gossiped, the list brings the rest / one short
	if q >= 2 {
		sc = append(sc, mk("one-for-B2/deliver-B2-rest-to-quorum", round(), votes(perm[:1], 2), 2, perm[1:q]))
		sc = append(sc, mk("one-for-B2/deliver-B2-one-short", round(), votes(perm[:1], 2), 2, perm[1:q-1]))
	}
	for _, in := range sc {
		if !f.emitHist(x, in) {
			x.Note("fast-sync history fixture n=%d stopped after %s", n, in.What)
			return
		}
	}
}

func replayHist(in histIn) string {
	restore := silenceStderr()
	defer restore()
	kr := newKeyring(in.Seed, "c05")
	var f *fsFix
	var err error
	if p := hxlib.Catch(func() { f, err = newFsFix(kr, in.Vals) }); p != "" {
		err = fmt.Errorf("fixture set-up panics: %s", p)
	}
	if f != nil {
		defer f.close()
	}
	if err != nil {
		return fmt.Sprintf("a syncing node on a chain whose block 1 carries the empty commit vote list for the genesis block cannot be set up (n=%d validators): %v", len(in.Vals), err)
	}
	consumed, pnc, _, _, c, err := f.runHist(in)
	if err != nil && c == nil {
		return ""
	}
	return f.histOracle(in, consumed, pnc)
}
