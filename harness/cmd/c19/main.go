// c19: db.NewLayerDB over db.NewMapDB vs Model_LayerDb, plus the direct oracle
// (a reference overlay map written here, independent of the Coq model).
package main

import (
	"bytes"
	"encoding/hex"
	"encoding/json"
	"fmt"
	"math/rand"
	"strings"
	"sync/atomic"
	"time"

	"github.com/icon-project/goloop/common/db"
	"verif/harness/hxlib"
)

// one operation of a history
type op struct {
	O     string  `json:"o"`           // set del get has flush bset bdel bget bhas
	B     string  `json:"b,omitempty"` // bucket id
	K     string  `json:"k,omitempty"` // key, hex
	V     *string `json:"v,omitempty"` // value, hex; absent = nil slice
	W     bool    `json:"w,omitempty"` // flush(write)
	Fresh bool    `json:"f,omitempty"` // obtain the bucket with GetBucket again instead of using the cached handle
}

type hist struct {
	Ops []op `json:"ops"`
}

func (o op) key() []byte { b, _ := hex.DecodeString(o.K); return b }
func (o op) val() []byte {
	if o.V == nil {
		return nil
	}
	b, _ := hex.DecodeString(*o.V)
	if b == nil {
		b = []byte{}
	}
	return b
}

func coqOptBytes(b []byte) string {
	if b == nil {
		return "None"
	}
	return "(Some " + hxlib.CoqBytes(b) + ")"
}

// tables of a history: bucket ids and keys in order of first appearance
type tables struct {
	bks, keys [][]byte
	bi, ki    map[string]int
}

func mkTables(h hist) *tables {
	t := &tables{bi: map[string]int{}, ki: map[string]int{}}
	for _, o := range h.Ops {
		if o.O == "flush" {
			continue
		}
		if _, ok := t.bi[o.B]; !ok {
			t.bi[o.B] = len(t.bks)
			t.bks = append(t.bks, []byte(o.B))
		}
		if _, ok := t.ki[o.K]; !ok {
			t.ki[o.K] = len(t.keys)
			t.keys = append(t.keys, o.key())
		}
	}
	return t
}

// compact Coq term (Run_C19.cop) of an operation together with its observed result
func (t *tables) term(o op, obs string) string {
	bk := fmt.Sprintf("%d %d", t.bi[o.B], t.ki[o.K])
	switch o.O {
	case "set":
		return fmt.Sprintf("cS %s %s", bk, coqOptBytes(o.val()))
	case "del":
		return "cD " + bk
	case "get":
		return fmt.Sprintf("cG %s %s", bk, obs)
	case "has":
		return fmt.Sprintf("cH %s %s", bk, obs)
	case "flush":
		return fmt.Sprintf("cF %s %s", hxlib.CoqBool(o.W), obs)
	case "bset":
		return fmt.Sprintf("bS %s %s", bk, coqOptBytes(o.val()))
	case "bdel":
		return "bD " + bk
	case "bget":
		return fmt.Sprintf("bG %s %s", bk, obs)
	case "bhas":
		return fmt.Sprintf("bH %s %s", bk, obs)
	}
	return "cF true true"
}

// default observation used inside cE (ignored by the model)
func (t *tables) errTerm(o op) string {
	d := map[string]string{"get": "None", "bget": "None", "has": "false", "bhas": "false", "flush": "false"}[o.O]
	if o.O == "flush" {
		return t.term(o, "false")
	}
	return "cE (" + t.term(o, d) + ")"
}

// ---- reference: the property statement as two Go maps ----
type ref struct {
	base    map[string][]byte
	over    map[string][]byte // present with nil value = deleted in the layer
	flushed bool
}

func rk(b string, k []byte) string { return b + "\x00/" + string(k) }

func (r *ref) view(key string) []byte {
	if !r.flushed {
		if v, ok := r.over[key]; ok {
			return v
		}
	}
	return r.base[key]
}

func nonNilCopy(v []byte) []byte { return append([]byte{}, v...) }

func sameVal(a, b []byte) bool { return (a == nil) == (b == nil) && bytes.Equal(a, b) }

func show(v []byte) string {
	if v == nil {
		return "nil"
	}
	return "[" + hex.EncodeToString(v) + "]"
}

type stats struct {
	layeredSet, tombstoneOverLive, flushNonEmpty, afterFlushWrite bool
}

// exec runs a history on the implementation; returns the Coq outputs, and the first
// disagreement with the reference (the direct oracle), if any.
func exec(h hist) (outs []string, msg string, st stats) {
	base := db.NewMapDB()
	ldb := db.NewLayerDB(base)
	lh := map[string]db.Bucket{}
	bh := map[string]db.Bucket{}
	r := &ref{base: map[string][]byte{}, over: map[string][]byte{}}
	fail := func(i int, f string, a ...interface{}) {
		if msg == "" {
			msg = fmt.Sprintf("op %d (%s): ", i, h.Ops[i].O) + fmt.Sprintf(f, a...)
		}
	}
	// the (bucket,key) universe of this history, for the commit/discard comparison
	type bk struct {
		b string
		k []byte
	}
	var uni []bk
	seen := map[string]bool{}
	for _, o := range h.Ops {
		if o.O == "flush" {
			continue
		}
		if !seen[rk(o.B, o.key())] {
			seen[rk(o.B, o.key())] = true
			uni = append(uni, bk{o.B, o.key()})
		}
	}
	layer := func(o op) (db.Bucket, error) {
		if b, ok := lh[o.B]; ok && !o.Fresh {
			return b, nil
		}
		b, err := ldb.GetBucket(db.BucketID(o.B))
		if err == nil {
			lh[o.B] = b
		}
		return b, err
	}
	under := func(b string) db.Bucket {
		if x, ok := bh[b]; ok {
			return x
		}
		x, _ := base.GetBucket(db.BucketID(b))
		bh[b] = x
		return x
	}
	errOut := func(err error) string {
		if err != nil {
			return "RErr"
		}
		return "RUnit"
	}
	for i, o := range h.Ops {
		key := rk(o.B, o.key())
		switch o.O {
		case "set", "del", "get", "has":
			b, err := layer(o)
			if err != nil {
				outs = append(outs, "RErr")
				fail(i, "GetBucket failed: %v", err)
				continue
			}
			switch o.O {
			case "set":
				err := b.Set(o.key(), o.val())
				outs = append(outs, errOut(err))
				if err != nil {
					fail(i, "Set failed: %v", err)
				}
				if r.flushed {
					r.base[key] = nonNilCopy(o.val())
					st.afterFlushWrite = true
				} else {
					r.over[key] = nonNilCopy(o.val())
					st.layeredSet = true
				}
			case "del":
				err := b.Delete(o.key())
				outs = append(outs, errOut(err))
				if err != nil {
					fail(i, "Delete failed: %v", err)
				}
				if r.flushed {
					delete(r.base, key)
					st.afterFlushWrite = true
				} else {
					if r.view(key) != nil {
						st.tombstoneOverLive = true
					}
					r.over[key] = nil
				}
			case "get":
				v, err := b.Get(o.key())
				if err != nil {
					outs = append(outs, "RErr")
					fail(i, "Get failed: %v", err)
					continue
				}
				outs = append(outs, "RVal "+coqOptBytes(v))
				if w := r.view(key); !sameVal(v, w) {
					fail(i, "layer Get(%s,%x) = %s, the layered view holds %s", o.B, o.key(), show(v), show(w))
				}
			case "has":
				v, err := b.Has(o.key())
				if err != nil {
					outs = append(outs, "RErr")
					fail(i, "Has failed: %v", err)
					continue
				}
				outs = append(outs, "RBool "+hxlib.CoqBool(v))
				if w := r.view(key) != nil; v != w {
					fail(i, "layer Has(%s,%x) = %v, the layered view says %v", o.B, o.key(), v, w)
				}
			}
		case "flush":
			// direct statement of the property on the implementation: snapshot before, compare after
			before := map[string][]byte{}
			viewBefore := map[string][]byte{}
			for _, u := range uni {
				k := rk(u.b, u.k)
				v, _ := under(u.b).Get(u.k)
				before[k] = v
				viewBefore[k] = v
				if lb, ok := lh[u.b]; ok { // only through handles that already exist
					viewBefore[k], _ = lb.Get(u.k)
				}
			}
			if len(r.over) > 0 && !r.flushed {
				st.flushNonEmpty = true
			}
			err := ldb.Flush(o.W)
			wasFlushed := r.flushed
			if err != nil {
				outs = append(outs, "RErr")
				if !(wasFlushed && !o.W) {
					fail(i, "Flush(%v) failed: %v", o.W, err)
				}
			} else {
				outs = append(outs, "RUnit")
				if wasFlushed && !o.W {
					// tolerated by the property, but the model says the call is refused
				}
			}
			if !wasFlushed {
				if o.W {
					for k, v := range r.over {
						if v == nil {
							delete(r.base, k)
						} else {
							r.base[k] = v
						}
					}
					r.flushed = true
				}
				r.over = map[string][]byte{}
			}
			for _, u := range uni {
				k := rk(u.b, u.k)
				v, _ := under(u.b).Get(u.k)
				if o.W {
					if !sameVal(v, viewBefore[k]) {
						fail(i, "after Flush(true) the underlying store has (%s,%x) = %s, the layered view before the flush had %s", u.b, u.k, show(v), show(viewBefore[k]))
					}
				} else if !sameVal(v, before[k]) {
					fail(i, "Flush(false) changed the underlying store at (%s,%x): %s -> %s", u.b, u.k, show(before[k]), show(v))
				}
			}
		case "bset":
			err := under(o.B).Set(o.key(), o.val())
			outs = append(outs, errOut(err))
			r.base[key] = nonNilCopy(o.val())
		case "bdel":
			err := under(o.B).Delete(o.key())
			outs = append(outs, errOut(err))
			delete(r.base, key)
		case "bget":
			v, err := under(o.B).Get(o.key())
			if err != nil {
				outs = append(outs, "RErr")
				continue
			}
			outs = append(outs, "RVal "+coqOptBytes(v))
			if w := r.base[key]; !sameVal(v, w) {
				fail(i, "underlying Get(%s,%x) = %s, expected %s (layer flushed=%v)", o.B, o.key(), show(v), show(w), r.flushed)
			}
		case "bhas":
			v, err := under(o.B).Has(o.key())
			if err != nil {
				outs = append(outs, "RErr")
				continue
			}
			outs = append(outs, "RBool "+hxlib.CoqBool(v))
			if w := r.base[key] != nil; v != w {
				fail(i, "underlying Has(%s,%x) = %v, expected %v (layer flushed=%v)", o.B, o.key(), v, w, r.flushed)
			}
		}
	}
	return
}

func run(h hist) (outs []string, msg string, st stats) {
	if p := hxlib.Catch(func() { outs, msg, st = exec(h) }); p != "" {
		msg = "panic: " + p
	}
	return
}

// ------------------------------------------------------------------ concurrent stream
// A writer goroutine performs Sets on a layered bucket while Flush(true) runs on another
// goroutine (db.Writer flushes several Flushers into one layer concurrently, so this is normal
// use).  The underlying bucket is gated: the first real Set of the commit parks until released,
// which pins the commit inside its replay.  Oracle: every acknowledged Set is visible in the
// view and in the underlying store once both goroutines have returned.  On a correct layer the
// writer's Set lands either in the list before the commit (replayed) or after it (written
// through), whatever the timing, so the stream cannot fail spuriously.

type gate struct {
	armed   int32
	entered chan struct{}
	release chan struct{}
}

type gateDB struct {
	db.Database
	g *gate
}

type gateBucket struct {
	db.Bucket
	g *gate
}

func (d *gateDB) GetBucket(id db.BucketID) (db.Bucket, error) {
	b, err := d.Database.GetBucket(id)
	if err != nil {
		return nil, err
	}
	return &gateBucket{b, d.g}, nil
}

func (b *gateBucket) park() {
	if atomic.CompareAndSwapInt32(&b.g.armed, 1, 0) {
		close(b.g.entered)
		<-b.g.release
	}
}
func (b *gateBucket) Set(k, v []byte) error { b.park(); return b.Bucket.Set(k, v) }
func (b *gateBucket) Delete(k []byte) error { b.park(); return b.Bucket.Delete(k) }

type concIn struct {
	Pre     int `json:"pre"`      // layered writes before the commit
	Writes  int `json:"writes"`   // Sets of the racing writer
	DelayMs int `json:"delay_ms"` // how long the commit stays parked after the writer started
	Buckets int `json:"buckets"`  // the writer's bucket: 0 = the bucket with list entries, 1 = another layered bucket
}

func concOracle(in concIn) string {
	g := &gate{entered: make(chan struct{}), release: make(chan struct{})}
	mdb := db.NewMapDB()
	ldb := db.NewLayerDB(&gateDB{mdb, g})
	bkA, _ := ldb.GetBucket("A")
	bkW := bkA
	wid := db.BucketID("A")
	if in.Buckets == 1 {
		bkW, _ = ldb.GetBucket("B")
		wid = "B"
	}
	for i := 0; i < in.Pre; i++ {
		bkA.Set([]byte{'p', byte(i)}, []byte{1, byte(i)})
	}
	atomic.StoreInt32(&g.armed, 1)
	fdone := make(chan error, 1)
	go func() { fdone <- ldb.Flush(true) }()
	select {
	case <-g.entered:
	case <-time.After(5 * time.Second):
		return "Flush(true) never reached the underlying store"
	}
	started := make(chan struct{})
	wdone := make(chan error, 1)
	go func() {
		close(started)
		for i := 0; i < in.Writes; i++ {
			if err := bkW.Set([]byte{'w', byte(i)}, []byte{2, byte(i)}); err != nil {
				wdone <- err
				return
			}
		}
		wdone <- nil
	}()
	<-started
	time.Sleep(time.Duration(in.DelayMs) * time.Millisecond)
	close(g.release)
	for _, ch := range []chan error{fdone, wdone} {
		select {
		case err := <-ch:
			if err != nil {
				return "operation failed: " + err.Error()
			}
		case <-time.After(10 * time.Second):
			return "Flush(true) and a concurrent Set do not both return (deadlock)"
		}
	}
	under, _ := mdb.GetBucket(wid)
	for i := 0; i < in.Writes; i++ {
		k, want := []byte{'w', byte(i)}, []byte{2, byte(i)}
		if v, _ := bkW.Get(k); !bytes.Equal(v, want) {
			return fmt.Sprintf("Set(%s,%x) was acknowledged while Flush(true) ran on another goroutine; afterwards the layered view holds %s", wid, k, show(v))
		}
		if v, _ := under.Get(k); !bytes.Equal(v, want) {
			return fmt.Sprintf("Set(%s,%x) was acknowledged while Flush(true) ran on another goroutine; afterwards the underlying store holds %s", wid, k, show(v))
		}
	}
	ua, _ := mdb.GetBucket("A")
	for i := 0; i < in.Pre; i++ {
		if v, _ := ua.Get([]byte{'p', byte(i)}); !bytes.Equal(v, []byte{1, byte(i)}) {
			return fmt.Sprintf("layered write p%d is missing from the underlying store after Flush(true): %s", i, show(v))
		}
	}
	return ""
}

func runConc(in concIn) (msg string) {
	if p := hxlib.Catch(func() { msg = concOracle(in) }); p != "" {
		msg = "panic: " + p
	}
	return
}

// ---- generator ----
var bucketIDs = []string{"A", "B", "C"}
var keyPool = [][]byte{{}, {1}, {1, 2}, {255}}

func hexp(b []byte) *string { s := hex.EncodeToString(b); return &s }

func randVal(r *rand.Rand) *string {
	switch r.Intn(8) {
	case 0:
		return nil // nil slice
	case 1:
		return hexp([]byte{}) // empty, non-nil
	case 2:
		return hexp([]byte{0})
	case 3:
		return hexp([]byte{7})
	default:
		b := make([]byte, 1+r.Intn(3))
		r.Read(b)
		return hexp(b)
	}
}

func readAll(r *rand.Rand, nb int) []op {
	var l []op
	for _, b := range bucketIDs[:nb] {
		for _, k := range keyPool {
			hk := hex.EncodeToString(k)
			l = append(l, op{O: "bget", B: b, K: hk}, op{O: "get", B: b, K: hk, Fresh: r.Intn(4) == 0})
			if r.Intn(4) == 0 {
				l = append(l, op{O: "bhas", B: b, K: hk}, op{O: "has", B: b, K: hk})
			}
		}
	}
	return l
}

func genHist(r *rand.Rand) hist {
	nb := 2 + r.Intn(2)
	var ops []op
	// sometimes start from a non-empty underlying store
	if r.Intn(2) == 0 {
		for i := 0; i < 1+r.Intn(5); i++ {
			ops = append(ops, op{O: "bset", B: bucketIDs[r.Intn(nb)], K: hex.EncodeToString(keyPool[r.Intn(4)]), V: randVal(r)})
		}
	}
	n := 6 + r.Intn(26)
	flushes := 0
	for i := 0; i < n; i++ {
		b := bucketIDs[r.Intn(nb)]
		if nb == 3 && r.Intn(3) > 0 { // the third bucket is mostly touched late (handed out after a flush)
			b = bucketIDs[r.Intn(2)]
		}
		k := hex.EncodeToString(keyPool[r.Intn(4)])
		fresh := r.Intn(5) == 0
		switch x := r.Intn(100); {
		case x < 30:
			ops = append(ops, op{O: "set", B: b, K: k, V: randVal(r), Fresh: fresh})
		case x < 52:
			ops = append(ops, op{O: "del", B: b, K: k, Fresh: fresh})
		case x < 66:
			ops = append(ops, op{O: "get", B: b, K: k, Fresh: fresh})
		case x < 76:
			ops = append(ops, op{O: "has", B: b, K: k, Fresh: fresh})
		case x < 80:
			ops = append(ops, op{O: "flush", W: r.Intn(2) == 0})
			ops = append(ops, readAll(r, nb)...)
			flushes++
		case x < 85:
			ops = append(ops, op{O: "bset", B: b, K: k, V: randVal(r)})
		case x < 87:
			ops = append(ops, op{O: "bdel", B: b, K: k})
		case x < 94:
			ops = append(ops, op{O: "bget", B: b, K: k})
		default:
			ops = append(ops, op{O: "bhas", B: b, K: k})
		}
	}
	// always end with a flush, a complete read, more writes, and a complete read
	ops = append(ops, op{O: "flush", W: r.Intn(3) > 0})
	ops = append(ops, readAll(r, nb)...)
	for i := 0; i < 2+r.Intn(5); i++ {
		b := bucketIDs[r.Intn(nb)]
		k := hex.EncodeToString(keyPool[r.Intn(4)])
		if r.Intn(3) == 0 {
			ops = append(ops, op{O: "del", B: b, K: k, Fresh: r.Intn(3) == 0})
		} else {
			ops = append(ops, op{O: "set", B: b, K: k, V: randVal(r), Fresh: r.Intn(3) == 0})
		}
	}
	if r.Intn(3) == 0 {
		ops = append(ops, op{O: "flush", W: r.Intn(2) == 0})
	}
	ops = append(ops, readAll(r, nb)...)
	return hist{ops}
}

func coqCase(h hist, outs []string) string {
	t := mkTables(h)
	var a []string
	for i, o := range h.Ops {
		x := "RErr"
		if i < len(outs) {
			x = outs[i]
		}
		switch {
		case x == "RErr":
			a = append(a, t.errTerm(o))
		case x == "RUnit":
			a = append(a, t.term(o, "true"))
		case strings.HasPrefix(x, "RVal "):
			a = append(a, t.term(o, x[5:]))
		case strings.HasPrefix(x, "RBool "):
			a = append(a, t.term(o, x[6:]))
		}
	}
	var bl, kl []string
	for _, b := range t.bks {
		bl = append(bl, hxlib.CoqBytes(b))
	}
	for _, k := range t.keys {
		kl = append(kl, hxlib.CoqBytes(k))
	}
	return "(CHist " + hxlib.CoqList(bl) + " " + hxlib.CoqList(kl) + " [" + strings.Join(a, "; ") + "])"
}

func gen(c *hxlib.Ctx) {
	for i := 0; i < c.N(1040); i++ {
		r := c.Sub("hist", i)
		h := genHist(r)
		outs, msg, st := run(h)
		kind := "hist"
		if st.afterFlushWrite {
			kind = "hist+direct-writes"
		}
		cs := hxlib.Case{Kind: kind, Input: h, OracleErr: msg,
			Nontrivial: st.layeredSet && st.tombstoneOverLive && st.flushNonEmpty}
		if !c.OracleOnly {
			cs.Coq = coqCase(h, outs)
		} else {
			cs.Key = fmt.Sprint(i)
		}
		c.Emit(cs)
	}
	// fixed boundary histories
	one := "01"
	fixed := []hist{
		{[]op{{O: "del", B: "A", K: one}, {O: "get", B: "A", K: one}, {O: "flush", W: true}, {O: "bget", B: "A", K: one}}},
		{[]op{{O: "bset", B: "A", K: one, V: hexp([]byte{5})}, {O: "del", B: "A", K: one}, {O: "has", B: "A", K: one}, {O: "get", B: "A", K: one},
			{O: "bget", B: "A", K: one}, {O: "flush", W: true}, {O: "bget", B: "A", K: one}, {O: "bhas", B: "A", K: one}}},
		{[]op{{O: "bset", B: "A", K: one, V: hexp([]byte{5})}, {O: "del", B: "A", K: one}, {O: "set", B: "A", K: one, V: nil}, {O: "get", B: "A", K: one}, {O: "has", B: "A", K: one},
			{O: "flush", W: true}, {O: "bget", B: "A", K: one}, {O: "bhas", B: "A", K: one}}},
		{[]op{{O: "set", B: "A", K: one, V: hexp([]byte{5})}, {O: "set", B: "B", K: one, V: hexp([]byte{6})}, {O: "flush", W: false},
			{O: "bget", B: "A", K: one}, {O: "get", B: "A", K: one}, {O: "get", B: "B", K: one}, {O: "set", B: "B", K: one, V: hexp([]byte{7})}, {O: "bget", B: "B", K: one},
			{O: "flush", W: true}, {O: "bget", B: "B", K: one}, {O: "bget", B: "A", K: one}, {O: "flush", W: false}, {O: "flush", W: true},
			{O: "set", B: "C", K: one, V: hexp([]byte{8}), Fresh: true}, {O: "bget", B: "C", K: one}, {O: "del", B: "B", K: one}, {O: "bget", B: "B", K: one}}},
	}
	for _, h := range fixed {
		outs, msg, _ := run(h)
		cs := hxlib.Case{Kind: "fixed", Input: h, OracleErr: msg, Nontrivial: true}
		if !c.OracleOnly {
			cs.Coq = coqCase(h, outs)
		}
		c.Emit(cs)
	}
	// concurrent stream (direct oracle only: the model is about histories, not schedules)
	for i := 0; i < 8; i++ {
		in := concIn{Pre: 1 + c.Rand.Intn(3), Writes: 1 + c.Rand.Intn(3), DelayMs: []int{5, 20, 40, 80}[i%4], Buckets: (i / 4) % 2}
		c.Emit(hxlib.Case{Kind: "concurrent-set-vs-flush", Key: fmt.Sprint("conc", i), Input: map[string]interface{}{"conc": in},
			OracleErr: runConc(in), Nontrivial: true})
	}
	// canary: a wrong observation (Get after Set reported as nil) that the model must flag
	c.Emit(hxlib.Case{Kind: "canary", Canary: true,
		Coq: "(CHist [[65]] [[1]] [cS 0 0 (Some [1]); cG 0 0 None])"})
}

func replay(raw json.RawMessage) string {
	var cc struct {
		Conc *concIn `json:"conc"`
	}
	if json.Unmarshal(raw, &cc) == nil && cc.Conc != nil {
		for i := 0; i < 5; i++ { // a schedule, not an input: try a few times
			if m := runConc(*cc.Conc); m != "" {
				return m
			}
		}
		return ""
	}
	var h hist
	if err := json.Unmarshal(raw, &h); err != nil {
		return "bad replay input: " + err.Error()
	}
	_, msg, _ := run(h)
	return msg
}

func main() {
	hxlib.Main(hxlib.Spec{
		ID: "C19",
		Rule: "random histories over 2-3 buckets x 4 keys (incl. the empty key) on db.NewLayerDB(db.NewMapDB()): layered set (nil, empty, 1-3 byte values) / delete / get / has, " +
			"direct reads and writes of the underlying MapDB, Flush(true|false) at random points and always near the end, a complete read of the underlying store and of the layer after every flush, " +
			"writes continue after the flush; bucket handles are cached or re-obtained at random. Direct oracle: a Go reference of two maps (base, overlay with tombstones) checked on every Get/Has, " +
			"plus base-after-Flush(true) = view-before and base-after-Flush(false) = base-before read from the implementation. " +
			"Plus 8 concurrent cases (no model side): a writer goroutine Sets on a layered bucket while Flush(true) is parked inside its replay by a gated underlying bucket; oracle: every acknowledged Set is in the view and in the underlying store afterwards. " +
			"non-trivial = the history has a layered set, a layered delete of a key that was visible, and a flush of a non-empty layer; distinct = distinct Coq case term",
		Shard: 80,
		Gen:   gen, Replay: replay,
	})
}
