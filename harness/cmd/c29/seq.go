package main

// Sequences of calls on ONE decoded proof-part object / ONE proof object, each
// call with its own decision.  The verdict of every call is judged on its own
// (independent ground truth for that (object, decision) pair): results must
// not depend on what was verified before.

import (
	"encoding/hex"
	"encoding/json"
	"fmt"
	"strings"

	"github.com/icon-project/goloop/common/codec"
	"github.com/icon-project/goloop/module"
	"verif/harness/hxlib"
)

type seqIn struct {
	T     string   `json:"t"`
	UID   string   `json:"uid"`
	Keys  []string `json:"validator_pubkeys_hex"`
	Via   bool     `json:"context_via_bytes"`
	Decs  []decIn  `json:"decisions"` // one call per entry, in order
	Index int64    `json:"part_index,omitempty"`
	Sig   *string  `json:"part_signature_hex,omitempty"`
	Proof string   `json:"proof_hex,omitempty"`
	Built bool     `json:"proof_built_by_add,omitempty"` // parts verified against decisions[0], then NewProof+Add
	What  string   `json:"what,omitempty"`
}

type partCall struct {
	ok    bool
	index int
	pnc   string
}

// runPartSeq: decode the part once, call VerifyPart on that object for every decision
func (c *pctx) runPartSeq(idx int64, raw []byte, ds []decision) (decoded bool, calls []partCall) {
	ppb := codec.BC.MustMarshalToBytes(&wPart{idx, raw})
	var pp module.BTPProofPart
	p := hxlib.Catch(func() {
		q, err := c.pc.NewProofPartFromBytes(ppb)
		if err == nil && q != nil {
			pp = q
		}
	})
	if p != "" || pp == nil {
		return false, nil
	}
	for _, d := range ds {
		dh := c.pc.NewDecision(d.Src, d.NTID, d.Height, d.Round, d.Hash).Hash()
		var pc partCall
		pc.pnc = hxlib.Catch(func() {
			i, err := c.pc.VerifyPart(dh, pp)
			pc.ok = err == nil
			pc.index = i
		})
		calls = append(calls, pc)
	}
	return true, calls
}

func (c *pctx) oraclePartSeq(idx int64, raw []byte, ds []decision, calls []partCall) string {
	for k, pc := range calls {
		if msg := c.oraclePart(ds[k], idx, raw, true, pc.index, pc.ok, pc.pnc); msg != "" {
			return fmt.Sprintf("call %d of %d on one proof-part object: %s", k+1, len(calls), msg)
		}
	}
	return ""
}

func (c *pctx) emitPartSeq(x *hxlib.Ctx, kind string, via bool, idx int64, e entry, ds []decision) {
	decoded, calls := c.runPartSeq(idx, e.Raw, ds)
	if !decoded {
		return
	}
	in := seqIn{T: "partseq", UID: c.uid, Keys: c.keysHex(), Via: via, Index: idx, What: kind}
	if e.Raw != nil {
		s := hex.EncodeToString(e.Raw)
		in.Sig = &s
	}
	for _, d := range ds {
		in.Decs = append(in.Decs, decToIn(d))
	}
	cs := hxlib.Case{Kind: kind, Input: in, Nontrivial: len(ds) > 1, OracleErr: c.oraclePartSeq(idx, e.Raw, ds, calls)}
	if !x.OracleOnly {
		var cl []string
		for k, pc := range calls {
			obs := "PError"
			if pc.pnc != "" || (pc.ok && pc.index < 0) {
				obs = "PCrash"
			} else if pc.ok {
				obs = fmt.Sprintf("PIndex %d", pc.index)
			}
			cl = append(cl, fmt.Sprintf("(%s, %s)", ds[k].coq(), obs))
		}
		sg := "None"
		if e.Kind != "absent" {
			sg = e.coq(decision{NTID: -1})
		}
		cs.Coq = fmt.Sprintf("(CPartSeq %s %s (%s) %s)", c.coqVals(), zlit(idx), sg, hxlib.CoqList(cl))
	}
	x.Emit(cs)
}

// runVerifySeq: one proof object, Verify once per decision.  built: the parts
// are decoded, verified one by one against ds[0] (as consensus does with the
// parts of incoming votes), added to NewProof(), and that object is verified.
func (c *pctx) runVerifySeq(es []entry, built bool, ds []decision) (ok bool, proofBytes []byte, accs []bool, pncs []string) {
	var pf module.BTPProof
	proofBytes = encodeProof(es)
	p := hxlib.Catch(func() {
		if built {
			q := c.pc.NewProof()
			d0 := ds[0]
			dh := c.pc.NewDecision(d0.Src, d0.NTID, d0.Height, d0.Round, d0.Hash).Hash()
			for i, e := range es {
				if e.Raw == nil {
					continue
				}
				pp, err := c.pc.NewProofPartFromBytes(codec.BC.MustMarshalToBytes(&wPart{int64(i), e.Raw}))
				if err != nil {
					return
				}
				_, _ = c.pc.VerifyPart(dh, pp)
				q.Add(pp)
			}
			pf = q
		} else {
			q, err := c.pc.NewProofFromBytes(proofBytes)
			if err == nil {
				pf = q
			}
		}
	})
	if p != "" || pf == nil {
		return false, proofBytes, nil, nil
	}
	for _, d := range ds {
		dh := c.pc.NewDecision(d.Src, d.NTID, d.Height, d.Round, d.Hash).Hash()
		var acc bool
		pnc := hxlib.Catch(func() { acc = c.pc.Verify(dh, pf) == nil })
		accs = append(accs, acc)
		pncs = append(pncs, pnc)
	}
	return true, proofBytes, accs, pncs
}

func (c *pctx) emitVerifySeq(x *hxlib.Ctx, kind string, via bool, es []entry, built bool, ds []decision) {
	if built {
		// Add needs every present entry inside the vector
		if len(es) != c.n() {
			return
		}
	}
	ok, proof, accs, pncs := c.runVerifySeq(es, built, ds)
	if !ok {
		return
	}
	in := seqIn{T: "verifyseq", UID: c.uid, Keys: c.keysHex(), Via: via, Proof: hex.EncodeToString(proof), Built: built, What: kind}
	for _, d := range ds {
		in.Decs = append(in.Decs, decToIn(d))
	}
	msg := ""
	for k := range ds {
		if m := c.oracleVerify(ds[k], proof, true, accs[k], pncs[k]); m != "" {
			msg = fmt.Sprintf("call %d of %d on one proof object: %s", k+1, len(ds), m)
			break
		}
	}
	cs := hxlib.Case{Kind: kind, Input: in, Nontrivial: len(ds) > 1 && c.n() > 0, OracleErr: msg}
	if !x.OracleOnly {
		var cl []string
		for k := range ds {
			cl = append(cl, fmt.Sprintf("(%s, %s)", ds[k].coq(), hxlib.CoqBool(accs[k] && pncs[k] == "")))
		}
		cs.Coq = fmt.Sprintf("(CVerifySeq %s %s %s)", c.coqVals(), coqEntries(es, decision{NTID: -1}), hxlib.CoqList(cl))
	}
	x.Emit(cs)
}

// genSeq: for one context and its decision A
func (c *pctx) genSeq(x *hxlib.Ctx, via bool, a decision) {
	r := x.Rand
	kp := c.keyed()
	if len(kp) == 0 {
		return
	}
	other := func() decision { return otherDecision(r, a, otherDecisionKinds[r.Intn(len(otherDecisionKinds))]) }
	b, b2 := other(), other()
	orders := map[string][]decision{
		"right-then-other":       {a, b},
		"other-then-right":       {b, a},
		"right-other-right-other": {a, b, a, b2},
		"other-other-right":       {b, b2, a},
		"right-right":             {a, a},
	}
	for _, name := range hxlib.SortedKeys(map[string]int{"right-then-other": 0, "other-then-right": 0, "right-other-right-other": 0, "other-other-right": 0, "right-right": 0}) {
		ds := orders[name]
		p := kp[r.Intn(len(kp))]
		// a genuine part of the validator at p over A
		c.emitPartSeq(x, "partseq/genuine/"+name, via, int64(p), c.signed(c.vals[p], a), ds)
		// the same through the implementation's signing
		if e, ok := c.signedImpl(c.vals[p], a); ok && r.Intn(2) == 0 {
			c.emitPartSeq(x, "partseq/genuine-impl/"+name, via, int64(p), e, ds)
		}
	}
	p := kp[r.Intn(len(kp))]
	// parts that are never valid: foreign key, wrong index, no signature
	c.emitPartSeq(x, "partseq/foreign-key", via, int64(p), c.signed(c.foreign(r), a), []decision{a, b, a})
	if len(kp) >= 2 {
		q := kp[r.Intn(len(kp))]
		if c.vals[q] != c.vals[p] {
			c.emitPartSeq(x, "partseq/other-validators-index", via, int64(q), c.signed(c.vals[p], a), []decision{a, b, a})
		}
	}
	c.emitPartSeq(x, "partseq/no-signature", via, int64(p), absent(), []decision{a, b})
	// a part signed over B checked against A first
	c.emitPartSeq(x, "partseq/signed-for-second", via, int64(p), c.signed(c.vals[p], b), []decision{a, b, a, b})

	// whole proofs
	f := 2 * c.n() / 3
	for _, k := range []int{f, f + 1, c.n()} {
		if k > len(kp) {
			continue
		}
		for _, built := range []bool{false, true} {
			tag := "decoded"
			if built {
				tag = "built-by-add"
			}
			es := c.base(r, a, k)
			c.emitVerifySeq(x, fmt.Sprintf("verifyseq/%s/right-other-right/%s", tag, rel(k, f)), via, es, built, []decision{a, b, a})
			c.emitVerifySeq(x, fmt.Sprintf("verifyseq/%s/other-right/%s", tag, rel(k, f)), via, c.base(r, a, k), built, []decision{b, a, b2})
		}
	}
}

func replaySeq(raw json.RawMessage) string {
	var in seqIn
	if err := json.Unmarshal(raw, &in); err != nil {
		return "bad replay input: " + err.Error()
	}
	c, err := ctxFromIn(verifyIn{UID: in.UID, Keys: in.Keys, Via: in.Via})
	if err != nil {
		return "cannot rebuild the proof context: " + err.Error()
	}
	var ds []decision
	for _, d := range in.Decs {
		ds = append(ds, decFromIn(d))
	}
	switch in.T {
	case "partseq":
		var sig []byte
		if in.Sig != nil {
			sig, _ = hex.DecodeString(*in.Sig)
			if sig == nil {
				sig = []byte{}
			}
		}
		decoded, calls := c.runPartSeq(in.Index, sig, ds)
		if !decoded {
			return ""
		}
		return c.oraclePartSeq(in.Index, sig, ds, calls)
	case "verifyseq":
		proof, _ := hex.DecodeString(in.Proof)
		var w wProof
		if _, err := codec.BC.UnmarshalFromBytes(proof, &w); err != nil {
			return ""
		}
		es := make([]entry, len(w.Signatures))
		for i, s := range w.Signatures {
			es[i] = entry{Raw: s}
		}
		ok, pb, accs, pncs := c.runVerifySeq(es, in.Built, ds)
		if !ok {
			return ""
		}
		for k := range ds {
			if m := c.oracleVerify(ds[k], pb, true, accs[k], pncs[k]); m != "" {
				return fmt.Sprintf("call %d of %d on one proof object: %s", k+1, len(ds), m)
			}
		}
		return ""
	}
	return "unknown case type " + in.T
}

var _ = strings.Join
