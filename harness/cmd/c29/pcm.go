package main

// proofContextMap.Verify: one proof per network type of the block's BTP digest
// that has a proof context, each checked for the decision
// (source network uid, network type id, height, round, network type section hash).

import (
	"encoding/hex"
	"encoding/json"
	"fmt"
	"math/rand"

	"github.com/icon-project/goloop/btp"
	"github.com/icon-project/goloop/module"
	"verif/harness/hxlib"
)

// ---- fakes for the read-only interfaces proofContextMap needs ----

type fakeNTView struct {
	uid string
	pc  []byte
}

func (v fakeNTView) UID() string                  { return v.uid }
func (v fakeNTView) NextProofContextHash() []byte { return nil }
func (v fakeNTView) NextProofContext() []byte     { return v.pc }
func (v fakeNTView) OpenNetworkIDs() []int64      { return nil }

type fakeView struct {
	ids []int64
	nts map[int64]fakeNTView
}

func (v fakeView) GetNetworkTypeIDs() ([]int64, error) { return v.ids, nil }
func (v fakeView) GetNetworkView(nid int64) (btp.NetworkView, error) {
	return nil, fmt.Errorf("no network view")
}
func (v fakeView) GetNetworkTypeView(ntid int64) (btp.NetworkTypeView, error) {
	nt, ok := v.nts[ntid]
	if !ok {
		return nil, fmt.Errorf("no network type %d", ntid)
	}
	return nt, nil
}

type fakeNTD struct {
	module.NetworkTypeDigest
	id   int64
	hash []byte
}

func (d fakeNTD) NetworkTypeID() int64           { return d.id }
func (d fakeNTD) NetworkTypeSectionHash() []byte { return d.hash }

type fakeDigest struct {
	module.BTPDigest
	ntds []module.NetworkTypeDigest
}

func (d fakeDigest) NetworkTypeDigests() []module.NetworkTypeDigest { return d.ntds }

type fakeProofs [][]byte

func (p fakeProofs) NTSDProofCount() int     { return len(p) }
func (p fakeProofs) NTSDProofAt(i int) []byte { return p[i] }

// ---- one scenario ----

type ntype struct {
	id   int64
	hash []byte // section hash in the digest
	c    *pctx  // nil: this network type has no proof context (inactive)
}

type pcmProof struct {
	bytes   []byte
	entries []entry // ground truth; nil with undecodable = true
	bad     bool    // bytes that NewProofFromBytes refuses
}

type pcmIn struct {
	T      string     `json:"t"`
	Src    string     `json:"src_hex"`
	Height int64      `json:"height"`
	Round  int32      `json:"round"`
	Types  []pcmTypeIn `json:"network_types"`
	Proofs []string   `json:"proofs_hex"`
	What   string     `json:"what,omitempty"`
}
type pcmTypeIn struct {
	ID   int64    `json:"ntid"`
	Hash string   `json:"section_hash_hex"`
	UID  string   `json:"uid,omitempty"` // "" = no proof context
	Keys []string `json:"validator_pubkeys_hex,omitempty"`
}

func runPcm(src []byte, height int64, round int32, types []ntype, proofs [][]byte) (acc bool, pnc string, setupErr error) {
	view := fakeView{nts: map[int64]fakeNTView{}}
	var ntds []module.NetworkTypeDigest
	for _, t := range types {
		ntds = append(ntds, fakeNTD{id: t.id, hash: t.hash})
		if t.c != nil {
			view.ids = append(view.ids, t.id)
			view.nts[t.id] = fakeNTView{uid: t.c.uid, pc: t.c.pc.Bytes()}
		}
	}
	pcm, err := btp.NewProofContextMap(view)
	if err != nil {
		return false, "", err
	}
	pnc = hxlib.Catch(func() {
		acc = pcm.Verify(src, height, round, fakeDigest{ntds: ntds}, fakeProofs(proofs)) == nil
	})
	return
}

func pcmOK(src []byte, height int64, round int32, types []ntype, proofs [][]byte) (bool, string) {
	var need []ntype
	for _, t := range types {
		if t.c != nil {
			need = append(need, t)
		}
	}
	if len(need) != len(proofs) {
		return false, fmt.Sprintf("%d proofs for %d network types with a proof context", len(proofs), len(need))
	}
	for i, t := range need {
		d := decision{src, t.id, height, round, t.hash}
		if ok, why := t.c.proofOK(d, proofs[i]); !ok {
			return false, fmt.Sprintf("proof %d (ntid %d): %s", i, t.id, why)
		}
	}
	return true, ""
}

func oraclePcm(src []byte, height int64, round int32, types []ntype, proofs [][]byte, acc bool, pnc string) string {
	ok, why := pcmOK(src, height, round, types, proofs)
	if pnc != "" {
		return fmt.Sprintf("proofContextMap.Verify panics (%s): %s", why, pnc)
	}
	if acc && !ok {
		return "proofContextMap.Verify accepts: " + why
	}
	if !acc && ok {
		return "proofContextMap.Verify rejects one valid proof per network type"
	}
	return ""
}

func genPcm(x *hxlib.Ctx, kr *keyring) {
	r := x.Rand
	count := x.N(60)
	for it := 0; it < count; it++ {
		src := []byte(fmt.Sprintf("0x%x.icon", 1+r.Intn(9)))
		height := 1 + r.Int63n(1<<30)
		round := r.Int31n(4)
		nt := 1 + r.Intn(3)
		var types []ntype
		ids := r.Perm(6)
		for i := 0; i < nt; i++ {
			t := ntype{id: int64(1 + ids[i]), hash: make([]byte, 32)}
			r.Read(t.hash)
			if r.Intn(5) != 0 {
				n := 1 + r.Intn(5)
				c, err := newPctx(kr, []string{"eth", "icon"}[r.Intn(2)], r.Perm(universe)[:n], false)
				if err != nil {
					continue
				}
				t.c = c
			}
			types = append(types, t)
		}
		// the right proofs
		mk := func(t ntype, d decision, k int) pcmProof {
			es := t.c.base(r, d, k)
			return pcmProof{bytes: encodeProof(es), entries: es}
		}
		var proofs []pcmProof
		for _, t := range types {
			if t.c == nil {
				continue
			}
			d := decision{src, t.id, height, round, t.hash}
			// any sufficient number of signers
			lo := 2*t.c.n()/3 + 1
			proofs = append(proofs, mk(t, d, lo+r.Intn(t.c.n()-lo+1)))
		}
		kinds := []string{"ok", "missing-proof", "extra-proof", "swapped", "one-insufficient", "one-other-height", "one-other-round",
			"one-other-src", "one-other-ntid", "one-other-section-hash", "one-undecodable", "verify-other-height", "verify-other-round", "verify-other-src"}
		kind := kinds[(it/2)%len(kinds)]
		if it%2 == 0 {
			kind = "ok"
		}
		vh, vr, vs := height, round, src
		withCtx := func() []int {
			var l []int
			for i, t := range types {
				if t.c != nil {
					l = append(l, i)
				}
			}
			return l
		}()
		pick := func() (int, ntype) { // index into proofs, its type
			j := r.Intn(len(withCtx))
			return j, types[withCtx[j]]
		}
		switch kind {
		case "ok":
		case "missing-proof":
			if len(proofs) == 0 {
				continue
			}
			j := r.Intn(len(proofs))
			proofs = append(proofs[:j:j], proofs[j+1:]...)
		case "extra-proof":
			if len(proofs) == 0 {
				proofs = append(proofs, pcmProof{bytes: encodeProof(nil), entries: []entry{}})
			} else {
				proofs = append(proofs, proofs[r.Intn(len(proofs))])
			}
		case "swapped":
			if len(proofs) < 2 {
				continue
			}
			proofs[0], proofs[1] = proofs[1], proofs[0]
		case "one-insufficient":
			if len(proofs) == 0 {
				continue
			}
			j, t := pick()
			proofs[j] = mk(t, decision{src, t.id, height, round, t.hash}, 2*t.c.n()/3)
		case "one-other-height", "one-other-round", "one-other-src", "one-other-ntid", "one-other-section-hash":
			if len(proofs) == 0 {
				continue
			}
			j, t := pick()
			d := decision{src, t.id, height, round, t.hash}
			od := otherDecision(r, d, map[string]string{"one-other-height": "height+1", "one-other-round": "round+1", "one-other-src": "src",
				"one-other-ntid": "ntid", "one-other-section-hash": "nts-hash-bit"}[kind])
			proofs[j] = mk(t, od, t.c.n())
		case "one-undecodable":
			if len(proofs) == 0 {
				continue
			}
			j := r.Intn(len(proofs))
			proofs[j] = pcmProof{bytes: []byte{0xc1, 0x80, 0x01}, bad: true}
			if _, err := types[withCtx[j]].c.pc.NewProofFromBytes(proofs[j].bytes); err == nil {
				x.Note("the malformed proof bytes decode; scenario skipped")
				continue
			}
		case "verify-other-height":
			vh = height + 1
		case "verify-other-round":
			vr = round + 1
		case "verify-other-src":
			vs = append(append([]byte(nil), src...), 'y')
		}
		var pbs [][]byte
		for _, p := range proofs {
			pbs = append(pbs, p.bytes)
		}
		acc, pnc, err := runPcm(vs, vh, vr, types, pbs)
		if err != nil {
			x.Note("pcm scenario skipped: %v", err)
			continue
		}
		in := pcmIn{T: "pcm", Src: hex.EncodeToString(vs), Height: vh, Round: vr, What: kind}
		for _, t := range types {
			ti := pcmTypeIn{ID: t.id, Hash: hex.EncodeToString(t.hash)}
			if t.c != nil {
				ti.UID = t.c.uid
				ti.Keys = t.c.keysHex()
			}
			in.Types = append(in.Types, ti)
		}
		for _, b := range pbs {
			in.Proofs = append(in.Proofs, hex.EncodeToString(b))
		}
		cs := hxlib.Case{Kind: "pcm/" + kind, Input: in, Nontrivial: len(withCtx) > 0, OracleErr: oraclePcm(vs, vh, vr, types, pbs, acc, pnc)}
		if !x.OracleOnly {
			var cx, dg, pf []string
			for _, t := range types {
				dg = append(dg, fmt.Sprintf("Dg %s %s", zlit(t.id), coqHex(t.hash)))
				if t.c != nil {
					cx = append(cx, fmt.Sprintf("Cx %s %s", zlit(t.id), t.c.coqVals()))
				}
			}
			for _, p := range proofs {
				if p.bad {
					pf = append(pf, "None")
					continue
				}
				// entries are printed with their full decisions (no shared binder here)
				es := make([]string, len(p.entries))
				for i, e := range p.entries {
					es[i] = e.coq(decision{NTID: -1})
				}
				pf = append(pf, "Some "+hxlib.CoqList(es))
			}
			cs.Coq = fmt.Sprintf("(CPcm %s %s %s %s %s %s %s)", coqHex(vs), zlit(vh), zlit(int64(vr)),
				hxlib.CoqList(cx), hxlib.CoqList(dg), hxlib.CoqList(pf), hxlib.CoqBool(acc && pnc == ""))
		}
		x.Emit(cs)
	}
}

func replayPcm(raw json.RawMessage) string {
	var in pcmIn
	if err := json.Unmarshal(raw, &in); err != nil {
		return "bad replay input: " + err.Error()
	}
	src, _ := hex.DecodeString(in.Src)
	var types []ntype
	for _, ti := range in.Types {
		h, _ := hex.DecodeString(ti.Hash)
		t := ntype{id: ti.ID, hash: h}
		if ti.UID != "" {
			c, err := ctxFromIn(verifyIn{UID: ti.UID, Keys: ti.Keys})
			if err != nil {
				return "cannot rebuild a proof context: " + err.Error()
			}
			t.c = c
		}
		types = append(types, t)
	}
	var pbs [][]byte
	for _, s := range in.Proofs {
		b, _ := hex.DecodeString(s)
		pbs = append(pbs, b)
	}
	acc, pnc, err := runPcm(src, in.Height, in.Round, types, pbs)
	if err != nil {
		return "cannot build the proof context map: " + err.Error()
	}
	return oraclePcm(src, in.Height, in.Round, types, pbs, acc, pnc)
}

var _ = rand.Int
