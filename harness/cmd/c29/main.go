// c29: btp/ntm secp256k1 proof contexts (VerifyPart, Verify) and
// btp.proofContextMap.Verify against Model_BTPProof, with real secp256k1 keys.
//
// The harness makes every key and every signature itself and tells the model
// for each entry of a proof what it is: a correct signature of key k over
// decision d (Signed), bytes that recover to nobody's address (Junk), bytes
// that do not recover (Unrec), or absent.  The implementation has to reach the
// same decision by recovering keys and deriving addresses.
package main

import (
	"bytes"
	"encoding/hex"
	"encoding/json"
	"fmt"
	"math/rand"
	"os"
	"strings"

	"golang.org/x/crypto/sha3"

	"github.com/icon-project/goloop/btp"
	"github.com/icon-project/goloop/btp/ntm"
	"github.com/icon-project/goloop/common/codec"
	"github.com/icon-project/goloop/common/crypto"
	"github.com/icon-project/goloop/common/wallet"
	"github.com/icon-project/goloop/module"
	"verif/harness/hxlib"
)

const universe = 14
const dsaName = "ecdsa/secp256k1"

// ---------------------------------------------------------------------------
// the harness's own view of the two network type modules
// ---------------------------------------------------------------------------

func ownHash(uid string, b []byte) []byte {
	if uid == "eth" {
		d := sha3.NewLegacyKeccak256()
		d.Write(b)
		return d.Sum(nil)
	}
	h := sha3.Sum256(b)
	return h[:]
}

// address of an uncompressed public key (0x04 | X | Y)
func ownAddr(uid string, pubUncompressed []byte) []byte {
	h := ownHash(uid, pubUncompressed[1:])
	if uid == "eth" {
		return h[12:]
	}
	return append([]byte{0}, h[12:]...)
}

type decision struct {
	Src    []byte
	NTID   int64
	Height int64
	Round  int32
	Hash   []byte
}

func (d decision) ownDigest(uid string) []byte {
	return ownHash(uid, codec.BC.MustMarshalToBytes(&d))
}

func (d decision) equal(o decision) bool {
	return bytes.Equal(d.Src, o.Src) && d.NTID == o.NTID && d.Height == o.Height && d.Round == o.Round && bytes.Equal(d.Hash, o.Hash)
}

func zlit(v int64) string {
	if v < 0 {
		return fmt.Sprintf("(%d)", v)
	}
	return fmt.Sprintf("%d", v)
}

func coqHex(b []byte) string {
	if len(b) == 0 {
		return "[]"
	}
	return fmt.Sprintf("(hx %d 0x%x)", len(b), b)
}

func (d decision) coq() string {
	return fmt.Sprintf("(Dc %s %s %s %s %s)", coqHex(d.Src), zlit(d.NTID), zlit(d.Height), zlit(int64(d.Round)), coqHex(d.Hash))
}

// ---------------------------------------------------------------------------
// keys
// ---------------------------------------------------------------------------

type keyring struct {
	sk   []*crypto.PrivateKey
	w    []module.Wallet
	pub  [][]byte // compressed
	upub [][]byte // uncompressed
	memo map[string][]byte
}

type wprov struct{ w module.BaseWallet }

func (p wprov) WalletFor(dsa string) module.BaseWallet {
	if dsa == dsaName {
		return p.w
	}
	return nil
}

func newKeyring(seed int64) *keyring {
	kr := &keyring{memo: map[string][]byte{}}
	for i := 0; len(kr.sk) < universe; i++ {
		sk, err := crypto.ParsePrivateKey(crypto.SHA3Sum256([]byte(fmt.Sprintf("verif-c29-key|%d|%d", seed, i))))
		if err != nil {
			continue
		}
		w, err := wallet.NewFromPrivateKey(sk)
		if err != nil {
			continue
		}
		kr.sk = append(kr.sk, sk)
		kr.w = append(kr.w, w)
		kr.pub = append(kr.pub, sk.PublicKey().SerializeCompressed())
		kr.upub = append(kr.upub, sk.PublicKey().SerializeUncompressed())
	}
	return kr
}

func (kr *keyring) sign(k int, digest []byte) []byte {
	key := fmt.Sprintf("%d|%x", k, digest)
	if r, ok := kr.memo[key]; ok {
		return r
	}
	sig, err := crypto.NewSignature(digest, kr.sk[k])
	if err != nil {
		panic(err)
	}
	raw, _ := sig.SerializeRSV()
	kr.memo[key] = raw
	return raw
}

func recoverUncompressed(raw []byte, digest []byte) []byte {
	if len(raw) == 0 {
		return nil
	}
	sig, err := crypto.ParseSignature(raw)
	if err != nil {
		return nil
	}
	pk, err := sig.RecoverPublicKey(digest)
	if err != nil || pk == nil {
		return nil
	}
	return pk.SerializeUncompressed()
}

// ---------------------------------------------------------------------------
// contexts, proofs, ground truth
// ---------------------------------------------------------------------------

type pctx struct {
	kr   *keyring
	uid  string
	vals []int // key number by position, -1 = validator without key
	pc   module.BTPProofContext
}

func (c *pctx) n() int { return len(c.vals) }

func newPctx(kr *keyring, uid string, vals []int, viaBytes bool) (*pctx, error) {
	mod := ntm.ForUID(uid)
	if mod == nil {
		return nil, fmt.Errorf("no module %s", uid)
	}
	keys := make([][]byte, len(vals))
	for i, k := range vals {
		if k >= 0 {
			keys[i] = kr.pub[k]
		}
	}
	pc, err := mod.NewProofContext(keys)
	if err != nil {
		return nil, err
	}
	if viaBytes {
		pc, err = mod.NewProofContextFromBytes(pc.Bytes())
		if err != nil {
			return nil, err
		}
	}
	return &pctx{kr, uid, vals, pc}, nil
}

func (c *pctx) ownAddrAt(i int) []byte {
	if c.vals[i] < 0 {
		return nil
	}
	return ownAddr(c.uid, c.kr.upub[c.vals[i]])
}

func (c *pctx) coqVals() string {
	vs := make([]string, len(c.vals))
	for i, k := range c.vals {
		if k < 0 {
			vs[i] = "None"
		} else {
			vs[i] = fmt.Sprintf("Some %d", k)
		}
	}
	return hxlib.CoqList(vs)
}

// one entry of a proof with its ground truth
type entry struct {
	Raw  []byte // nil = absent
	Kind string // "absent" | "signed" | "junk" | "unrec"
	Key  int
	Dec  decision
}

func absent() entry { return entry{Kind: "absent"} }

func (c *pctx) signed(k int, d decision) entry {
	return entry{Raw: c.kr.sign(k, d.ownDigest(c.uid)), Kind: "signed", Key: k, Dec: d}
}

// signedImpl: through the implementation's NewDecision / NewProofPart (only for keys of the context)
func (c *pctx) signedImpl(k int, d decision) (entry, bool) {
	dh := c.pc.NewDecision(d.Src, d.NTID, d.Height, d.Round, d.Hash).Hash()
	var e entry
	ok := false
	hxlib.Catch(func() {
		pp, err := c.pc.NewProofPart(dh, wprov{c.kr.w[k]})
		if err != nil || pp == nil {
			return
		}
		var wp wPart
		if _, err := codec.BC.UnmarshalFromBytes(pp.Bytes(), &wp); err != nil {
			return
		}
		e = entry{Raw: wp.Signature, Kind: "signed", Key: k, Dec: d}
		ok = true
	})
	return e, ok
}

// classify bytes the harness did not produce by signing d with a known key
func (c *pctx) classify(raw []byte, d decision) (entry, bool) {
	up := recoverUncompressed(raw, d.ownDigest(c.uid))
	if up == nil {
		return entry{Raw: raw, Kind: "unrec"}, true
	}
	a := ownAddr(c.uid, up)
	for i := range c.vals {
		if bytes.Equal(c.ownAddrAt(i), a) {
			return entry{}, false // astronomically unlikely; drop the case
		}
	}
	return entry{Raw: raw, Kind: "junk"}, true
}

func (e entry) coq(d decision) string {
	switch e.Kind {
	case "absent":
		return "No"
	case "signed":
		if e.Dec.equal(d) {
			return fmt.Sprintf("Sg %d d", e.Key)
		}
		return fmt.Sprintf("Sg %d %s", e.Key, e.Dec.coq())
	case "junk":
		return "Jk"
	default:
		return "Un"
	}
}

func coqEntries(es []entry, d decision) string {
	s := make([]string, len(es))
	for i, e := range es {
		s[i] = e.coq(d)
	}
	return hxlib.CoqList(s)
}

// wire forms
type wProof struct{ Signatures [][]byte }
type wPart struct {
	Index     int64
	Signature []byte
}

func encodeProof(es []entry) []byte {
	w := wProof{Signatures: make([][]byte, len(es))}
	for i, e := range es {
		w.Signatures[i] = e.Raw
	}
	return codec.BC.MustMarshalToBytes(&w)
}

// ---------------------------------------------------------------------------
// the direct oracle: the property statement on the bytes
// ---------------------------------------------------------------------------

// proofOK: every present signature recovers, over this decision, to the
// validator at its own index, and more than two thirds of the validators signed
func (c *pctx) proofOK(d decision, proof []byte) (bool, string) {
	var w wProof
	if _, err := codec.BC.UnmarshalFromBytes(proof, &w); err != nil {
		return false, "proof does not decode"
	}
	n := c.n()
	cnt := 0
	dg := d.ownDigest(c.uid)
	for i, raw := range w.Signatures {
		if raw == nil {
			continue
		}
		if i >= n {
			return false, fmt.Sprintf("signature at index %d beyond the %d validators", i, n)
		}
		up := recoverUncompressed(raw, dg)
		if up == nil {
			return false, fmt.Sprintf("signature at index %d does not recover", i)
		}
		want := c.ownAddrAt(i)
		if want == nil || !bytes.Equal(ownAddr(c.uid, up), want) {
			return false, fmt.Sprintf("signature at index %d is not a signature of the validator at that index over this decision", i)
		}
		cnt++
	}
	if 3*cnt > 2*n {
		return true, ""
	}
	return false, fmt.Sprintf("%d signatures for %d validators is not more than two thirds", cnt, n)
}

type verifyIn struct {
	T      string   `json:"t"`
	UID    string   `json:"uid"`
	Keys   []string `json:"validator_pubkeys_hex"` // "" = validator without key
	Via    bool     `json:"context_via_bytes"`
	Dec    decIn    `json:"decision"`
	Proof  string   `json:"proof_hex,omitempty"`
	Index  int64    `json:"part_index,omitempty"`
	Sig    *string  `json:"part_signature_hex,omitempty"` // nil = part without signature
	What   string   `json:"what,omitempty"`
}
type decIn struct {
	Src    string `json:"src_hex"`
	NTID   int64  `json:"ntid"`
	Height int64  `json:"height"`
	Round  int32  `json:"round"`
	Hash   string `json:"nts_hash_hex"`
}

func decToIn(d decision) decIn {
	return decIn{hex.EncodeToString(d.Src), d.NTID, d.Height, d.Round, hex.EncodeToString(d.Hash)}
}
func decFromIn(i decIn) decision {
	s, _ := hex.DecodeString(i.Src)
	h, _ := hex.DecodeString(i.Hash)
	return decision{s, i.NTID, i.Height, i.Round, h}
}

func (c *pctx) keysHex() []string {
	r := make([]string, len(c.vals))
	for i, k := range c.vals {
		if k >= 0 {
			r[i] = hex.EncodeToString(c.kr.pub[k])
		}
	}
	return r
}

// runVerify returns (decoded, accepted, panic)
func (c *pctx) runVerify(d decision, proof []byte) (bool, bool, string) {
	dh := c.pc.NewDecision(d.Src, d.NTID, d.Height, d.Round, d.Hash).Hash()
	var dec, acc bool
	p := hxlib.Catch(func() {
		pf, err := c.pc.NewProofFromBytes(proof)
		if err != nil {
			return
		}
		dec = true
		acc = c.pc.Verify(dh, pf) == nil
	})
	return dec, acc, p
}

func (c *pctx) oracleVerify(d decision, proof []byte, dec, acc bool, pnc string) string {
	ok, why := c.proofOK(d, proof)
	if pnc != "" {
		return fmt.Sprintf("BTP proof verification panics (%s): %s", why, pnc)
	}
	if !dec {
		return ""
	}
	if acc && !ok {
		return "BTP proof accepted without valid signatures of more than two thirds of the validators at their own indices: " + why
	}
	if !acc && ok {
		return "BTP proof with valid signatures of more than two thirds of the validators at their own indices is rejected"
	}
	return ""
}

func (c *pctx) emitVerify(x *hxlib.Ctx, kind string, viaBytes bool, d decision, es []entry) {
	proof := encodeProof(es)
	dec, acc, pnc := c.runVerify(d, proof)
	if !dec && pnc == "" {
		x.Note("proof of kind %s did not decode; skipped", kind)
		return
	}
	in := verifyIn{T: "verify", UID: c.uid, Keys: c.keysHex(), Via: viaBytes, Dec: decToIn(d), Proof: hex.EncodeToString(proof), What: kind}
	cs := hxlib.Case{Kind: kind, Input: in, Nontrivial: c.n() > 0 && len(es) > 0, OracleErr: c.oracleVerify(d, proof, dec, acc, pnc)}
	if !x.OracleOnly {
		cs.Coq = fmt.Sprintf("(let d := %s in CVerify d %s %s %s)", d.coq(), c.coqVals(), coqEntries(es, d), hxlib.CoqBool(acc && pnc == ""))
	}
	x.Emit(cs)
}

// ---- VerifyPart ----

func (c *pctx) runPart(d decision, idx int64, raw []byte) (decoded bool, index int, ok bool, pnc string) {
	dh := c.pc.NewDecision(d.Src, d.NTID, d.Height, d.Round, d.Hash).Hash()
	ppb := codec.BC.MustMarshalToBytes(&wPart{idx, raw})
	pnc = hxlib.Catch(func() {
		pp, err := c.pc.NewProofPartFromBytes(ppb)
		if err != nil || pp == nil {
			return
		}
		decoded = true
		i, err := c.pc.VerifyPart(dh, pp)
		ok = err == nil
		index = i
	})
	return
}

func (c *pctx) partOK(d decision, idx int64, raw []byte) (bool, string) {
	if idx < 0 || idx >= int64(c.n()) {
		return false, "index outside the validator list"
	}
	if raw == nil {
		return false, "no signature"
	}
	up := recoverUncompressed(raw, d.ownDigest(c.uid))
	if up == nil {
		return false, "signature does not recover"
	}
	want := c.ownAddrAt(int(idx))
	if want == nil || !bytes.Equal(ownAddr(c.uid, up), want) {
		return false, "not a signature of the validator at that index over this decision"
	}
	return true, ""
}

func (c *pctx) oraclePart(d decision, idx int64, raw []byte, decoded bool, index int, ok bool, pnc string) string {
	good, why := c.partOK(d, idx, raw)
	if pnc != "" {
		if raw == nil {
			return "VerifyPart panics on a proof part without signature: " + pnc
		}
		return fmt.Sprintf("VerifyPart panics (%s): %s", why, pnc)
	}
	if !decoded {
		return ""
	}
	if ok && !good {
		return "VerifyPart accepts a proof part: " + why
	}
	if ok && int64(index) != idx {
		return fmt.Sprintf("VerifyPart returns index %d for a part with index %d", index, idx)
	}
	if !ok && good {
		return "VerifyPart rejects a valid signature of the validator at the part's index"
	}
	return ""
}

func (c *pctx) emitPart(x *hxlib.Ctx, kind string, viaBytes bool, d decision, idx int64, e entry) {
	decoded, index, ok, pnc := c.runPart(d, idx, e.Raw)
	if !decoded && pnc == "" {
		x.Note("proof part of kind %s did not decode; skipped", kind)
		return
	}
	in := verifyIn{T: "part", UID: c.uid, Keys: c.keysHex(), Via: viaBytes, Dec: decToIn(d), Index: idx, What: kind}
	if e.Raw != nil {
		s := hex.EncodeToString(e.Raw)
		in.Sig = &s
	}
	obs := "PError"
	if pnc != "" {
		obs = "PCrash"
	} else if ok {
		obs = fmt.Sprintf("(PIndex %d)", index)
		if index < 0 {
			obs = "PCrash" // cannot be printed as N; the model never returns it
		}
	}
	sg := "None"
	if e.Kind != "absent" {
		sg = e.coq(d)
	}
	cs := hxlib.Case{Kind: kind, Input: in, Nontrivial: c.n() > 0, OracleErr: c.oraclePart(d, idx, e.Raw, decoded, index, ok, pnc)}
	if !x.OracleOnly {
		cs.Coq = fmt.Sprintf("(let d := %s in CPart d %s %s (%s) %s)", d.coq(), c.coqVals(), zlit(idx), sg, obs)
	}
	x.Emit(cs)
}

// ---------------------------------------------------------------------------
// generation
// ---------------------------------------------------------------------------

func randDecision(r *rand.Rand) decision {
	d := decision{Src: []byte(fmt.Sprintf("0x%x.icon", 1+r.Intn(9))), NTID: int64(1 + r.Intn(5)), Height: 1 + r.Int63n(1<<40), Round: r.Int31n(5), Hash: make([]byte, 32)}
	r.Read(d.Hash)
	return d
}

var otherDecisionKinds = []string{"src", "ntid", "height+1", "height-1", "round+1", "nts-hash-bit", "nts-hash-trunc"}

func otherDecision(r *rand.Rand, d decision, kind string) decision {
	o := d
	switch kind {
	case "src":
		o.Src = append(append([]byte(nil), d.Src...), 'x')
	case "ntid":
		o.NTID++
	case "height+1":
		o.Height++
	case "height-1":
		o.Height--
	case "round+1":
		o.Round++
	case "nts-hash-bit":
		o.Hash = append([]byte(nil), d.Hash...)
		o.Hash[r.Intn(len(o.Hash))] ^= 1 << uint(r.Intn(8))
	case "nts-hash-trunc":
		o.Hash = d.Hash[:len(d.Hash)-1]
	}
	return o
}

func flipBit(b []byte, r *rand.Rand, lo, hi int) []byte {
	c := append([]byte(nil), b...)
	c[lo+r.Intn(hi-lo)] ^= 1 << uint(r.Intn(8))
	return c
}

func (c *pctx) foreign(r *rand.Rand) int {
	for {
		k := r.Intn(universe)
		in := false
		for _, v := range c.vals {
			if v == k {
				in = true
			}
		}
		if !in {
			return k
		}
	}
}

// keyed positions of the context
func (c *pctx) keyed() []int {
	var p []int
	for i, k := range c.vals {
		if k >= 0 {
			p = append(p, i)
		}
	}
	return p
}

// base: valid signatures at k of the keyed positions, the vector has length n
func (c *pctx) base(r *rand.Rand, d decision, k int) []entry {
	es := make([]entry, c.n())
	for i := range es {
		es[i] = absent()
	}
	kp := c.keyed()
	r.Shuffle(len(kp), func(i, j int) { kp[i], kp[j] = kp[j], kp[i] })
	if k > len(kp) {
		k = len(kp)
	}
	for _, p := range kp[:k] {
		if r.Intn(2) == 0 {
			if e, ok := c.signedImpl(c.vals[p], d); ok {
				es[p] = e
				continue
			}
		}
		es[p] = c.signed(c.vals[p], d)
	}
	return es
}

var badKinds = []string{"foreign-key", "wrong-index", "other-decision", "other-module-hash", "tamper-r", "tamper-s", "tamper-v",
	"unrec-zero65", "unrec-noV", "unrec-v2", "at-nil-key-position", "beyond-context", "same-signer-twice"}

// bad: one entry that must not count, put at position p (p may be == n: beyond the context)
func (c *pctx) bad(r *rand.Rand, d decision, kind string, es []entry) ([]entry, bool) {
	n := c.n()
	res := append([]entry(nil), es...)
	var free, used []int // keyed positions without / with a signature
	for _, p := range c.keyed() {
		if res[p].Kind == "absent" {
			free = append(free, p)
		} else {
			used = append(used, p)
		}
	}
	pick := func(l []int) int { return l[r.Intn(len(l))] }
	// where the bad entry goes: a free keyed position if any, else it replaces a used one
	var p int
	switch {
	case len(free) > 0:
		p = pick(free)
	case len(used) > 0:
		p = pick(used)
	default:
		return nil, false
	}
	vk := c.vals[p]
	switch kind {
	case "foreign-key":
		res[p] = c.signed(c.foreign(r), d)
	case "wrong-index":
		// a valid signature of ANOTHER validator of this context
		var others []int
		for _, q := range c.keyed() {
			if q != p && c.vals[q] != vk {
				others = append(others, q)
			}
		}
		if len(others) == 0 {
			return nil, false
		}
		res[p] = c.signed(c.vals[pick(others)], d)
	case "other-decision":
		res[p] = c.signed(vk, otherDecision(r, d, otherDecisionKinds[r.Intn(len(otherDecisionKinds))]))
	case "other-module-hash":
		other := "icon"
		if c.uid == "icon" {
			other = "eth"
		}
		raw := c.kr.sign(vk, d.ownDigest(other))
		e, ok := c.classify(raw, d)
		if !ok {
			return nil, false
		}
		res[p] = e
	case "tamper-r", "tamper-s", "tamper-v":
		raw := c.kr.sign(vk, d.ownDigest(c.uid))
		switch kind {
		case "tamper-r":
			raw = flipBit(raw, r, 0, 32)
		case "tamper-s":
			raw = flipBit(raw, r, 32, 64)
		default:
			raw = append([]byte(nil), raw...)
			raw[64] ^= 1
		}
		e, ok := c.classify(raw, d)
		if !ok {
			return nil, false
		}
		res[p] = e
	case "unrec-zero65":
		e, ok := c.classify(make([]byte, 65), d)
		if !ok {
			return nil, false
		}
		res[p] = e
	case "unrec-noV":
		e, ok := c.classify(c.kr.sign(vk, d.ownDigest(c.uid))[:64], d)
		if !ok {
			return nil, false
		}
		res[p] = e
	case "unrec-v2":
		raw := append([]byte(nil), c.kr.sign(vk, d.ownDigest(c.uid))...)
		raw[64] = byte(2 + r.Intn(250))
		e, ok := c.classify(raw, d)
		if !ok {
			return nil, false
		}
		res[p] = e
	case "at-nil-key-position":
		var nk []int
		for i, k := range c.vals {
			if k < 0 {
				nk = append(nk, i)
			}
		}
		if len(nk) == 0 || len(c.keyed()) == 0 {
			return nil, false
		}
		q := pick(nk)
		res[q] = c.signed(c.vals[pick(c.keyed())], d)
	case "beyond-context":
		// a valid signature of a validator of the context, at index n (or later)
		kp := c.keyed()
		if len(kp) == 0 {
			return nil, false
		}
		for i := r.Intn(2); i > 0; i-- {
			res = append(res, absent())
		}
		res = append(res, c.signed(c.vals[pick(kp)], d))
		_ = n
	case "same-signer-twice":
		// the signature of a validator that already signed, repeated at another position
		if len(used) == 0 {
			return nil, false
		}
		src := pick(used)
		var others []int
		for q := 0; q < n; q++ {
			if q != src && res[q].Kind == "absent" {
				others = append(others, q)
			}
		}
		if len(others) == 0 {
			return nil, false
		}
		res[pick(others)] = res[src]
	default:
		panic(kind)
	}
	return res, true
}

func rel(k, f int) string {
	switch {
	case k == f:
		return "k=floor(2n/3)"
	case k == f+1:
		return "k=floor(2n/3)+1"
	case k < f:
		return "k<floor(2n/3)"
	default:
		return "k>floor(2n/3)+1"
	}
}

func gen(x *hxlib.Ctx) {
	ntm.InitIconModule()
	r := x.Rand
	kr := newKeyring(x.Seed)
	runCorpus(x)

	for rep := 0; rep < x.N(1); rep++ {
		for n := 0; n <= 10; n++ {
			for _, shape := range []string{"all-keys", "nil-keys"} {
				uid := []string{"eth", "icon"}[r.Intn(2)]
				vals := r.Perm(universe)[:n]
				if shape == "nil-keys" {
					if n == 0 {
						continue
					}
					for q := 1 + r.Intn(1+n/3); q > 0; q-- {
						vals[r.Intn(n)] = -1
					}
				}
				via := r.Intn(2) == 0
				c, err := newPctx(kr, uid, vals, via)
				if err != nil {
					x.Note("context n=%d: %v", n, err)
					continue
				}
				d := randDecision(r)
				f := 2 * n / 3
				nk := len(c.keyed())
				ks := map[int]bool{0: true, 1: true, f - 1: true, f: true, f + 1: true, f + 2: true, n - 1: true, n: true, nk: true}
				for k := 0; k <= nk; k++ {
					if !ks[k] {
						continue
					}
					critical := k == f || k == f+1
					reps := 1
					if k >= f {
						reps = 3
					}
					for q := 0; q < reps; q++ {
						es := c.base(r, d, k)
						c.emitVerify(x, fmt.Sprintf("subset/%s/%s", shape, rel(k, f)), via, d, es)
						switch q {
						case 1: // shorter vector: trailing absent entries dropped
							for len(es) > 0 && es[len(es)-1].Kind == "absent" {
								es = es[:len(es)-1]
							}
							c.emitVerify(x, fmt.Sprintf("subset-short-vector/%s/%s", shape, rel(k, f)), via, d, es)
						case 2: // longer vector: absent entries appended
							for j := 1 + r.Intn(3); j > 0; j-- {
								es = append(es, absent())
							}
							c.emitVerify(x, fmt.Sprintf("subset-long-vector/%s/%s", shape, rel(k, f)), via, d, es)
						}
					}
					for _, kind := range badKinds {
						if !critical && r.Intn(4) != 0 {
							continue
						}
						es, ok := c.bad(r, d, kind, c.base(r, d, k))
						if !ok {
							continue
						}
						c.emitVerify(x, fmt.Sprintf("%s/%s/%s", kind, shape, rel(k, f)), via, d, es)
					}
				}
				// all validators sign, every signature moved one position on
				if n >= 2 && shape == "all-keys" {
					es := c.base(r, d, n)
					rot := append([]entry{es[n-1]}, es[:n-1]...)
					c.emitVerify(x, "rotated-vector", via, d, rot)
				}
				// everybody signed another decision
				if n >= 1 {
					od := otherDecision(r, d, otherDecisionKinds[r.Intn(len(otherDecisionKinds))])
					c.emitVerify(x, "all-signed-other-decision", via, d, c.base(r, od, n))
				}
				// sequences of calls on one part / proof object
				if n >= 1 {
					c.genSeq(x, via, d)
				}
				// VerifyPart
				if n >= 1 {
					kp := c.keyed()
					for _, pk := range []string{"right", "other-validators-index", "index-1", "index=n", "index-huge", "index-negative-huge",
						"no-signature", "foreign-key", "other-decision", "tamper-s", "unrec-zero65", "nil-key-position"} {
						if len(kp) == 0 {
							continue
						}
						p := kp[r.Intn(len(kp))]
						e := c.signed(c.vals[p], d)
						idx := int64(p)
						switch pk {
						case "right":
							if r.Intn(2) == 0 {
								if ie, ok := c.signedImpl(c.vals[p], d); ok {
									e = ie
								}
							}
						case "other-validators-index":
							if len(kp) < 2 {
								continue
							}
							q := kp[r.Intn(len(kp))]
							for q == p {
								q = kp[r.Intn(len(kp))]
							}
							idx = int64(q)
						case "index-1":
							idx = -1
						case "index=n":
							idx = int64(n)
						case "index-huge":
							idx = 1<<40 + int64(p)
						case "index-negative-huge":
							idx = -(1 << 40)
						case "no-signature":
							e = absent()
						case "foreign-key":
							e = c.signed(c.foreign(r), d)
						case "other-decision":
							e = c.signed(c.vals[p], otherDecision(r, d, otherDecisionKinds[r.Intn(len(otherDecisionKinds))]))
						case "tamper-s":
							var ok bool
							e, ok = c.classify(flipBit(e.Raw, r, 32, 64), d)
							if !ok {
								continue
							}
						case "unrec-zero65":
							var ok bool
							e, ok = c.classify(make([]byte, 65), d)
							if !ok {
								continue
							}
						case "nil-key-position":
							q := -1
							for i, k := range c.vals {
								if k < 0 {
									q = i
								}
							}
							if q < 0 {
								continue
							}
							idx = int64(q)
						}
						c.emitPart(x, "part/"+pk, via, d, idx, e)
					}
				}
			}
		}
	}

	genPcm(x, kr)
	genPcmHist(x, kr)

	// canaries: wrong observations the model must flag
	{
		c, _ := newPctx(kr, "eth", []int{3, 1, 4, 5}, false)
		d := randDecision(r)
		es := c.base(r, d, 3)
		x.Emit(hxlib.Case{Kind: "canary", Canary: true, Coq: fmt.Sprintf("(let d := %s in CVerify d %s %s false)", d.coq(), c.coqVals(), coqEntries(es, d))})
		es2 := c.base(r, d, 2)
		x.Emit(hxlib.Case{Kind: "canary", Canary: true, Coq: fmt.Sprintf("(let d := %s in CVerify d %s %s true)", d.coq(), c.coqVals(), coqEntries(es2, d))})
		x.Emit(hxlib.Case{Kind: "canary", Canary: true, Coq: fmt.Sprintf("(let d := %s in CPart d %s 1 (Sg 3 d) (PIndex 1))", d.coq(), c.coqVals())})
		od := otherDecision(r, d, "round+1")
		x.Emit(hxlib.Case{Kind: "canary", Canary: true, Coq: fmt.Sprintf("(let d := %s in CPartSeq %s 0 (Sg 3 d) [(d, PIndex 0); (%s, PIndex 0)])", d.coq(), c.coqVals(), od.coq())})
		x.Emit(hxlib.Case{Kind: "canary", Canary: true, Coq: "(CPcmHist [Cx 1 [Some 1]] [HHas 0 1 true; HUpdate 0 [] [1%Z]; HHas 0 1 false; HHas 1 1 false])"})
		x.Emit(hxlib.Case{Kind: "canary", Canary: true, Coq: fmt.Sprintf("(let d := %s in CVerifySeq %s %s [(d, true); (%s, true)])", d.coq(), c.coqVals(), coqEntries(es, d), od.coq())})
	}
}

// ---------------------------------------------------------------------------
// corpus and replay
// ---------------------------------------------------------------------------

func verifRoot() string {
	if d := os.Getenv("VERIF_ROOT"); d != "" {
		return d
	}
	return "/verif"
}

// ctxFromIn rebuilds a context from public keys (key numbers are not needed by the oracle)
func ctxFromIn(in verifyIn) (*pctx, error) {
	ntm.InitIconModule()
	kr := &keyring{memo: map[string][]byte{}}
	vals := make([]int, len(in.Keys))
	for i, s := range in.Keys {
		if s == "" {
			vals[i] = -1
			continue
		}
		b, err := hex.DecodeString(s)
		if err != nil {
			return nil, err
		}
		pk, err := crypto.ParsePublicKey(b)
		if err != nil {
			return nil, err
		}
		vals[i] = len(kr.pub)
		kr.pub = append(kr.pub, pk.SerializeCompressed())
		kr.upub = append(kr.upub, pk.SerializeUncompressed())
	}
	return newPctx(kr, in.UID, vals, in.Via)
}

func replayOne(in verifyIn) string {
	c, err := ctxFromIn(in)
	if err != nil {
		return "cannot rebuild the proof context: " + err.Error()
	}
	d := decFromIn(in.Dec)
	switch in.T {
	case "verify":
		proof, _ := hex.DecodeString(in.Proof)
		dec, acc, pnc := c.runVerify(d, proof)
		return c.oracleVerify(d, proof, dec, acc, pnc)
	case "part":
		var raw []byte
		if in.Sig != nil {
			raw, _ = hex.DecodeString(*in.Sig)
			if raw == nil {
				raw = []byte{}
			}
		}
		decoded, index, ok, pnc := c.runPart(d, in.Index, raw)
		return c.oraclePart(d, in.Index, raw, decoded, index, ok, pnc)
	}
	return "unknown case type " + in.T
}

func runCorpus(x *hxlib.Ctx) {
	dir := verifRoot() + "/corpus/C29"
	ents, err := os.ReadDir(dir)
	if err != nil {
		x.Note("no corpus directory %s", dir)
		return
	}
	for _, e := range ents {
		if !strings.HasSuffix(e.Name(), ".json") {
			continue
		}
		b, err := os.ReadFile(dir + "/" + e.Name())
		if err != nil {
			continue
		}
		var doc struct {
			Input json.RawMessage `json:"input"`
		}
		if json.Unmarshal(b, &doc) != nil || doc.Input == nil {
			x.Note("corpus file %s has no input", e.Name())
			continue
		}
		x.Emit(hxlib.Case{Kind: "corpus/" + strings.TrimSuffix(e.Name(), ".json"), Input: doc.Input, Key: e.Name(),
			Nontrivial: true, OracleErr: replay(doc.Input)})
	}
}

func replay(raw json.RawMessage) string {
	var t struct {
		T string `json:"t"`
	}
	if err := json.Unmarshal(raw, &t); err != nil {
		return "bad replay input: " + err.Error()
	}
	switch t.T {
	case "verify", "part":
		var in verifyIn
		if err := json.Unmarshal(raw, &in); err != nil {
			return "bad replay input: " + err.Error()
		}
		return replayOne(in)
	case "pcm":
		return replayPcm(raw)
	case "pcmhist":
		ntm.InitIconModule()
		return replayPcmHist(raw)
	case "partseq", "verifyseq":
		return replaySeq(raw)
	}
	return "unknown case type " + t.T
}

func main() {
	hxlib.Main(hxlib.Spec{
		ID: "C29",
		Rule: "proof contexts of n=0..10 real secp256k1 keys (eth and icon network type modules, with and without key-less validators, built directly and re-read from bytes); for every n signature vectors with k valid signatures at their own positions for k in {0,1,f-1,f,f+1,f+2,n-1,n}, f=floor(2n/3), as long, shortened and nil-extended vectors, alone and with ONE entry that must not count: foreign key, another validator's signature (wrong index), a signature over another decision (src/ntid/height/round/section hash), over the other module's hash, bit-flipped r/s/v, zero/V-less/bad-V bytes, a signature at a key-less position, beyond the context, a signer repeated at a second position (all kinds at k=f and f+1, a sample elsewhere); rotated vectors; single proof parts through VerifyPart (right, other index, -1, n, huge, no signature, foreign, other decision, tampered); SEQUENCES of VerifyPart calls on one decoded part object and of Verify calls on one proof object (decoded, or built by NewProof+Add from parts already verified) with different decisions per call (right/other, other/right, …), every call judged on its own; histories over proof-context-map versions (M0 from state; Update by a section that only inactivates a network type / inactivates and changes a context / changes a context / activates a type / changes nothing; Verify with all proofs, with the victim type's proof missing, with a digest without it, and ProofContextFor, asked of EVERY version before and after every Update); digests of 1..3 network types through proofContextMap.Verify with missing/extra/swapped/undecodable/insufficient proofs and wrong height/round/source. non-trivial = non-empty context and non-empty vector; distinct = distinct Coq case term",
		Gen:  gen, Replay: replay,
	})
}

var _ = btp.ZeroProofContextMap
