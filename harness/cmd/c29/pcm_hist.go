package main

// Histories over proof-context-map VERSIONS: M0 from state, M1 = M0.Update(section),
// M2 = M1.Update(section') …, and Verify / ProofContextFor asked of EVERY version
// before and after each Update.  A version must keep answering as it did when it
// was created (the map of height H is still used for votes and commit vote lists
// of height H after the map of H+1 was derived).

import (
	"encoding/hex"
	"encoding/json"
	"fmt"
	"math/rand"
	"sort"

	"github.com/icon-project/goloop/btp"
	"github.com/icon-project/goloop/module"
	"verif/harness/hxlib"
)

// ---- state view for the section builder ----

type fakeNetView struct {
	ntid    int64
	open    bool
	changed bool
}

func (v fakeNetView) Name() string                   { return "n" }
func (v fakeNetView) Owner() module.Address          { return nil }
func (v fakeNetView) NetworkTypeID() int64           { return v.ntid }
func (v fakeNetView) Open() bool                     { return v.open }
func (v fakeNetView) NextMessageSN() int64           { return 1 }
func (v fakeNetView) NextProofContextChanged() bool  { return v.changed }
func (v fakeNetView) PrevNetworkSectionHash() []byte { return nil }
func (v fakeNetView) LastNetworkSectionHash() []byte { return nil }

type histNTView struct {
	uid  string
	pc   module.BTPProofContext
	open []int64
}

func (v histNTView) UID() string { return v.uid }
func (v histNTView) NextProofContextHash() []byte {
	if v.pc == nil {
		return nil
	}
	return v.pc.Hash()
}
func (v histNTView) NextProofContext() []byte {
	if v.pc == nil {
		return nil
	}
	return v.pc.Bytes()
}
func (v histNTView) OpenNetworkIDs() []int64 { return v.open }

type histView struct {
	nets map[int64]fakeNetView
	nts  map[int64]histNTView
}

func (v histView) GetNetworkTypeIDs() ([]int64, error) {
	var ids []int64
	for id := range v.nts {
		ids = append(ids, id)
	}
	sort.Slice(ids, func(i, j int) bool { return ids[i] < ids[j] })
	return ids, nil
}
func (v histView) GetNetworkView(nid int64) (btp.NetworkView, error) {
	n, ok := v.nets[nid]
	if !ok {
		return nil, fmt.Errorf("no network %d", nid)
	}
	return n, nil
}
func (v histView) GetNetworkTypeView(ntid int64) (btp.NetworkTypeView, error) {
	n, ok := v.nts[ntid]
	if !ok {
		return nil, fmt.Errorf("no network type %d", ntid)
	}
	return n, nil
}

type sectionSource struct{ s module.BTPSection }

func (s sectionSource) BTPSection() (module.BTPSection, error) { return s.s, nil }
func (s sectionSource) NextProofContextMap() (module.BTPProofContextMap, error) {
	return nil, fmt.Errorf("not used")
}

// ---- replayable description of a history ----

type ctxSpec struct {
	NTID int64  `json:"ntid"`
	UID  string `json:"uid"`
	Keys []int  `json:"validator_keys"` // key numbers of the run's keyring
}

type histOp struct {
	Op string `json:"op"` // "update" | "verify" | "has"
	// update
	From    int       `json:"from,omitempty"`
	Changed []ctxSpec `json:"changed,omitempty"`
	Inact   []int64   `json:"inactivated,omitempty"`
	// verify / has
	On     int      `json:"on,omitempty"`
	Src    string   `json:"src_hex,omitempty"`
	Height int64    `json:"height,omitempty"`
	Round  int32    `json:"round,omitempty"`
	NTIDs  []int64  `json:"digest_ntids,omitempty"`
	Hashes []string `json:"digest_section_hashes_hex,omitempty"`
	Proofs []string `json:"proofs_hex,omitempty"`
	NTID   int64    `json:"ntid,omitempty"`
	What   string   `json:"what,omitempty"`
}

type pcmHistIn struct {
	T    string    `json:"t"`
	Seed int64     `json:"seed"`
	M0   []ctxSpec `json:"initial_map"`
	Ops  []histOp  `json:"ops"`
	What string    `json:"what,omitempty"`
}

type version map[int64]*pctx // the harness's own, never mutated, view of a version

func buildCtx(kr *keyring, cs ctxSpec) (*pctx, error) { return newPctx(kr, cs.UID, cs.Keys, false) }

// runPcmHist executes the history on the implementation; answers[i] = nil for updates
func runPcmHist(kr *keyring, in pcmHistIn) (answers []*bool, oracle string, err error) {
	view := fakeView{nts: map[int64]fakeNTView{}}
	v0 := version{}
	for _, cs := range in.M0 {
		c, e := buildCtx(kr, cs)
		if e != nil {
			return nil, "", e
		}
		v0[cs.NTID] = c
		view.ids = append(view.ids, cs.NTID)
		view.nts[cs.NTID] = fakeNTView{uid: cs.UID, pc: c.pc.Bytes()}
	}
	m0, e := btp.NewProofContextMap(view)
	if e != nil {
		return nil, "", e
	}
	maps := []module.BTPProofContextMap{m0}
	vers := []version{v0}
	sound := false // an unsound acceptance has been recorded
	for k, op := range in.Ops {
		switch op.Op {
		case "update":
			if op.From >= len(maps) {
				return nil, "", fmt.Errorf("bad history")
			}
			hv := histView{nets: map[int64]fakeNetView{}, nts: map[int64]histNTView{}}
			nv := version{}
			for id, c := range vers[op.From] {
				nv[id] = c
			}
			sb := btp.NewSectionBuilder(hv)
			for _, cs := range op.Changed {
				c, e := buildCtx(kr, cs)
				if e != nil {
					return nil, "", e
				}
				nid := cs.NTID * 10
				hv.nets[nid] = fakeNetView{ntid: cs.NTID, open: true, changed: true}
				hv.nts[cs.NTID] = histNTView{uid: cs.UID, pc: c.pc, open: []int64{nid}}
				sb.EnsureSection(nid)
				nv[cs.NTID] = c
			}
			for _, id := range op.Inact {
				sb.NotifyInactivated(id)
				delete(nv, id)
			}
			var sec module.BTPSection
			var nm module.BTPProofContextMap
			p := hxlib.Catch(func() {
				sec, e = sb.Build()
				if e == nil {
					nm, e = maps[op.From].Update(sectionSource{sec})
				}
			})
			if p != "" || e != nil || nm == nil {
				return nil, "", fmt.Errorf("Update failed: %v %s", e, p)
			}
			maps = append(maps, nm)
			vers = append(vers, nv)
			answers = append(answers, nil)
		case "verify":
			src, _ := hex.DecodeString(op.Src)
			var types []ntype
			var ntds []module.NetworkTypeDigest
			for i, id := range op.NTIDs {
				h, _ := hex.DecodeString(op.Hashes[i])
				types = append(types, ntype{id: id, hash: h, c: vers[op.On][id]})
				ntds = append(ntds, fakeNTD{id: id, hash: h})
			}
			var pbs [][]byte
			for _, s := range op.Proofs {
				b, _ := hex.DecodeString(s)
				pbs = append(pbs, b)
			}
			var acc bool
			pnc := hxlib.Catch(func() {
				acc = maps[op.On].Verify(src, op.Height, op.Round, fakeDigest{ntds: ntds}, fakeProofs(pbs)) == nil
			})
			a := acc && pnc == ""
			answers = append(answers, &a)
			// report the first failure, but prefer an unsound acceptance over a refused valid proof list
			if msg := oraclePcm(src, op.Height, op.Round, types, pbs, acc, pnc); msg != "" {
				if oracle == "" || (acc && !sound) {
					oracle = fmt.Sprintf("step %d (%s), Verify on map version %d of %d: %s", k+1, op.What, op.On, len(maps), msg)
					sound = sound || acc
				}
			}
		case "has":
			var has bool
			pnc := hxlib.Catch(func() {
				pc, e := maps[op.On].ProofContextFor(op.NTID)
				has = e == nil && pc != nil
			})
			answers = append(answers, &has)
			_, want := vers[op.On][op.NTID]
			if oracle == "" && (pnc != "" || has != want) {
				oracle = fmt.Sprintf("step %d (%s): ProofContextFor(%d) on map version %d of %d says %v, the version was created %s that network type %s",
					k+1, op.What, op.NTID, op.On, len(maps), has, map[bool]string{true: "with", false: "without"}[want], pnc)
			}
		}
	}
	return answers, oracle, nil
}

func coqCtxSpec(cs ctxSpec) string {
	vs := make([]string, len(cs.Keys))
	for i, k := range cs.Keys {
		if k < 0 {
			vs[i] = "None"
		} else {
			vs[i] = fmt.Sprintf("Some %d", k)
		}
	}
	return fmt.Sprintf("Cx %s %s", zlit(cs.NTID), hxlib.CoqList(vs))
}

type histProofGT struct {
	entries []entry
	bad     bool
}

func genPcmHist(x *hxlib.Ctx, kr *keyring) {
	r := x.Rand
	count := x.N(12)
	for it := 0; it < count; it++ {
		genOnePcmHist(x, kr, r, it)
	}
}

func genOnePcmHist(x *hxlib.Ctx, kr *keyring, r *rand.Rand, it int) {
	uids := []string{"eth", "icon"}
	mkSpec := func(id int64) ctxSpec {
		return ctxSpec{NTID: id, UID: uids[r.Intn(2)], Keys: r.Perm(universe)[:1+r.Intn(4)]}
	}
	in := pcmHistIn{T: "pcmhist", Seed: x.Seed}
	nt := 2 + r.Intn(2)
	cur := map[int64]ctxSpec{}
	for i := 0; i < nt; i++ {
		cs := mkSpec(int64(i + 1))
		in.M0 = append(in.M0, cs)
		cur[cs.NTID] = cs
	}
	src := []byte(fmt.Sprintf("0x%x.icon", 1+r.Intn(9)))
	height := 1 + r.Int63n(1<<30)
	hashes := map[int64][]byte{}
	for id := int64(1); id <= 4; id++ {
		h := make([]byte, 32)
		r.Read(h)
		hashes[id] = h
	}
	// ground truth of every verify op, for the Coq term
	var gts [][]histProofGT
	// all specs ever used, to build proofs
	ctxOf := func(cs ctxSpec) *pctx {
		c, err := buildCtx(kr, cs)
		if err != nil {
			panic(err)
		}
		return c
	}
	// a query: digest over `ids`, proofs for the ids in `with` signed under specs `by`
	addVerify := func(on int, what string, ids []int64, with []int64, by map[int64]ctxSpec) {
		op := histOp{Op: "verify", On: on, Src: hex.EncodeToString(src), Height: height, Round: 0, What: what}
		var gt []histProofGT
		for _, id := range ids {
			op.NTIDs = append(op.NTIDs, id)
			op.Hashes = append(op.Hashes, hex.EncodeToString(hashes[id]))
		}
		for _, id := range with {
			c := ctxOf(by[id])
			es := c.base(r, decision{src, id, height, 0, hashes[id]}, c.n())
			op.Proofs = append(op.Proofs, hex.EncodeToString(encodeProof(es)))
			gt = append(gt, histProofGT{entries: es})
		}
		in.Ops = append(in.Ops, op)
		gts = append(gts, gt)
	}
	addHas := func(on int, what string, id int64) {
		in.Ops = append(in.Ops, histOp{Op: "has", On: on, NTID: id, What: what})
		gts = append(gts, nil)
	}
	ids := func(m map[int64]ctxSpec) []int64 {
		var l []int64
		for id := range m {
			l = append(l, id)
		}
		sort.Slice(l, func(i, j int) bool { return l[i] < l[j] })
		return l
	}
	without := func(l []int64, x int64) []int64 {
		var o []int64
		for _, v := range l {
			if v != x {
				o = append(o, v)
			}
		}
		return o
	}
	// the battery asked of one version: full digest with all proofs, with one proof
	// missing, digest without that type; ProofContextFor of every id
	specsOf := []map[int64]ctxSpec{}
	battery := func(on int, tag string, victim int64) {
		m := specsOf[on]
		all := ids(m)
		full := all
		if _, ok := m[victim]; !ok {
			// a digest that still contains the (inactivated) type
			full = append(append([]int64(nil), all...), victim)
			sort.Slice(full, func(i, j int) bool { return full[i] < full[j] })
		}
		addVerify(on, tag+"/all-types-all-proofs", full, all, m)
		addVerify(on, tag+"/victim-type-without-its-proof", full, without(all, victim), m)
		addVerify(on, tag+"/digest-without-victim", without(full, victim), without(all, victim), m)
		for id := int64(1); id <= 4; id++ {
			addHas(on, tag+"/proof-context-for", id)
		}
	}
	copySpecs := func(m map[int64]ctxSpec) map[int64]ctxSpec {
		o := map[int64]ctxSpec{}
		for k, v := range m {
			o[k] = v
		}
		return o
	}
	specsOf = append(specsOf, copySpecs(cur))
	victim := int64(1 + r.Intn(nt))
	battery(0, "v0-before", victim)

	kinds := []string{"inactivation-only", "inactivation+context-change", "context-change-only", "activation", "no-change"}
	steps := 1 + r.Intn(2)
	for s := 0; s < steps; s++ {
		kind := kinds[(it+s)%len(kinds)]
		if s == 0 && it%2 == 0 {
			kind = "inactivation-only"
		}
		from := len(specsOf) - 1
		if r.Intn(4) == 0 {
			from = r.Intn(len(specsOf))
		}
		base := copySpecs(specsOf[from])
		op := histOp{Op: "update", From: from, What: kind}
		live := ids(base)
		switch kind {
		case "inactivation-only":
			if len(live) == 0 {
				continue
			}
			v := victim
			if _, ok := base[v]; !ok {
				v = live[r.Intn(len(live))]
			}
			op.Inact = []int64{v}
			delete(base, v)
		case "inactivation+context-change":
			if len(live) < 2 {
				continue
			}
			v := victim
			if _, ok := base[v]; !ok {
				v = live[0]
			}
			o := without(live, v)[0]
			ns := mkSpec(o)
			op.Changed = []ctxSpec{ns}
			op.Inact = []int64{v}
			base[o] = ns
			delete(base, v)
		case "context-change-only":
			if len(live) == 0 {
				continue
			}
			o := live[r.Intn(len(live))]
			ns := mkSpec(o)
			op.Changed = []ctxSpec{ns}
			base[o] = ns
		case "activation":
			ns := mkSpec(4)
			op.Changed = []ctxSpec{ns}
			base[4] = ns
		}
		in.Ops = append(in.Ops, op)
		gts = append(gts, nil)
		specsOf = append(specsOf, base)
		// keep-and-recheck: every version, old and new, answers the battery again
		for on := range specsOf {
			battery(on, fmt.Sprintf("v%d-after-update-%d(%s)", on, s+1, kind), victim)
		}
	}
	in.What = fmt.Sprintf("%d updates", steps)

	answers, oracle, err := runPcmHist(kr, in)
	if err != nil {
		x.Note("pcm history skipped: %v", err)
		return
	}
	cs := hxlib.Case{Kind: "pcmhist/" + in.Ops[firstUpdate(in.Ops)].What, Input: in, Nontrivial: true, OracleErr: oracle}
	if !x.OracleOnly {
		var m0 []string
		for _, c := range in.M0 {
			m0 = append(m0, coqCtxSpec(c))
		}
		var ops []string
		for k, op := range in.Ops {
			switch op.Op {
			case "update":
				var ch, ia []string
				for _, c := range op.Changed {
					ch = append(ch, coqCtxSpec(c))
				}
				for _, id := range op.Inact {
					ia = append(ia, zlit(id)+"%Z")
				}
				ops = append(ops, fmt.Sprintf("HUpdate %d %s %s", op.From, hxlib.CoqList(ch), hxlib.CoqList(ia)))
			case "verify":
				var dg, pf []string
				for i, id := range op.NTIDs {
					h, _ := hex.DecodeString(op.Hashes[i])
					dg = append(dg, fmt.Sprintf("Dg %s %s", zlit(id), coqHex(h)))
				}
				for _, g := range gts[k] {
					es := make([]string, len(g.entries))
					for i, e := range g.entries {
						es[i] = e.coq(decision{NTID: -1})
					}
					pf = append(pf, "Some "+hxlib.CoqList(es))
				}
				ops = append(ops, fmt.Sprintf("HVerify %d %s %s %s %s %s %s", op.On, coqHex(src), zlit(op.Height), zlit(int64(op.Round)),
					hxlib.CoqList(dg), hxlib.CoqList(pf), hxlib.CoqBool(*answers[k])))
			case "has":
				ops = append(ops, fmt.Sprintf("HHas %d %s %s", op.On, zlit(op.NTID), hxlib.CoqBool(*answers[k])))
			}
		}
		cs.Coq = fmt.Sprintf("(CPcmHist %s %s)", hxlib.CoqList(m0), hxlib.CoqList(ops))
	}
	x.Emit(cs)
}

func firstUpdate(ops []histOp) int {
	for i, o := range ops {
		if o.Op == "update" {
			return i
		}
	}
	return 0
}

func replayPcmHist(raw json.RawMessage) string {
	var in pcmHistIn
	if err := json.Unmarshal(raw, &in); err != nil {
		return "bad replay input: " + err.Error()
	}
	_, oracle, err := runPcmHist(newKeyring(in.Seed), in)
	if err != nil {
		return ""
	}
	return oracle
}
