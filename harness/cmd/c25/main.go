// c25: common.Compress / common.Decompress (common/lzw) vs Model_Lzw.
package main

import (
	"bytes"
	stdlzw "compress/lzw"
	"encoding/hex"
	"encoding/json"
	"fmt"
	"io"
	"math/big"
	"math/rand"
	"strings"

	"github.com/icon-project/goloop/common"
	"github.com/icon-project/goloop/service/txresult"
	"verif/harness/hxlib"
	"verif/harness/hxpack"
)

type compIn struct {
	X string `json:"x_hex"`
}
type holdIn struct {
	Xs []string `json:"xs_hex"`
}
type decIn struct {
	B string `json:"stream_hex"`
}

// ---------- bit helpers (independent of the code under test) ----------

func bitsOf(b []byte) []bool {
	r := make([]bool, 0, len(b)*8)
	for _, x := range b {
		for k := 7; k >= 0; k-- {
			r = append(r, x>>uint(k)&1 == 1)
		}
	}
	return r
}

func packBits(bits []bool) []byte {
	r := make([]byte, (len(bits)+7)/8)
	for i, b := range bits {
		if b {
			r[i/8] |= 1 << uint(7-i%8)
		}
	}
	return r
}

// codeWriter writes codes MSB first following the READER's width schedule
// (hi/width/overflow as in Reader.decode), so that arbitrary code sequences —
// including ones no encoder of this package produces — can be built.
type codeWriter struct {
	bits                []bool
	hi, width, overflow int
}

func newCodeWriter() *codeWriter { return &codeWriter{hi: 257, width: 9, overflow: 512} }

func (w *codeWriter) put(code int) {
	for k := w.width - 1; k >= 0; k-- {
		w.bits = append(w.bits, code>>uint(k)&1 == 1)
	}
	if code == 256 {
		w.hi, w.width, w.overflow = 257, 9, 512
		return
	}
	w.hi++
	if w.hi >= w.overflow {
		if w.width == 12 {
			w.hi--
		} else {
			w.width++
			w.overflow <<= 1
		}
	}
}

// codesOf parses a stream with the reader's schedule (used to steer generators
// and for the non-triviality rule only).
func codesOf(stream []byte) (codes []int) {
	bits := bitsOf(stream)
	hi, width, overflow := 257, 9, 512
	for len(bits) >= width {
		c := 0
		for _, b := range bits[:width] {
			c <<= 1
			if b {
				c |= 1
			}
		}
		bits = bits[width:]
		codes = append(codes, c)
		if c == 257 {
			return
		}
		if c == 256 {
			hi, width, overflow = 257, 9, 512
			continue
		}
		hi++
		if hi >= overflow {
			if width == 12 {
				hi--
			} else {
				width++
				overflow <<= 1
			}
		}
	}
	return
}

func stdCompress(x []byte) []byte {
	var buf bytes.Buffer
	w := stdlzw.NewWriter(&buf, stdlzw.MSB, 8)
	w.Write(x)
	w.Close()
	return buf.Bytes()
}

func stdDecompress(b []byte) ([]byte, error) {
	r := stdlzw.NewReader(bytes.NewReader(b), stdlzw.MSB, 8)
	defer r.Close()
	return io.ReadAll(r)
}

// ---------- direct oracle ----------

// oracleComp: Decompress(Compress x) == x; Compress x is the legacy encoding:
// the bit stream of Go's compress/lzw (MSB, litWidth 8) without its leading
// 9-bit clear code; the first code is the literal x[0].
func oracleCompLive(x []byte) (comp, dec, keepC, keepD []byte, msg string) {
	if p := hxlib.Catch(func() { comp = common.Compress(x) }); p != "" {
		return nil, nil, nil, nil, "Compress panics: " + p
	}
	keepC = clone(comp) // the value at the moment it was returned
	if p := hxlib.Catch(func() { dec = common.Decompress(comp) }); p != "" {
		return comp, nil, keepC, nil, "Decompress panics on Compress output: " + p
	}
	keepD = clone(dec)
	if !bytes.Equal(dec, x) {
		return comp, dec, keepC, keepD, fmt.Sprintf("round trip: Decompress(Compress(x)) != x for %d input bytes (got %d bytes back)", len(x), len(dec))
	}
	if len(x) == 0 {
		if len(comp) != 0 {
			msg = "format: Compress of the empty string is not empty"
		}
		return comp, dec, keepC, keepD, msg
	}
	ref := stdCompress(x)
	rb := bitsOf(ref)
	first := 0
	for _, b := range rb[:9] {
		first <<= 1
		if b {
			first |= 1
		}
	}
	if first != 256 {
		return comp, dec, keepC, keepD, "oracle: reference encoder did not start with a clear code"
	}
	want := packBits(rb[9:])
	if !(bytes.Equal(want, comp) || (len(want) == len(comp)+1 && want[len(comp)] == 0 && bytes.Equal(want[:len(comp)], comp))) {
		return comp, dec, keepC, keepD, fmt.Sprintf("format: Compress(x) is not the legacy LZW encoding (reference stream without its leading clear code) for %d input bytes", len(x))
	}
	cb := bitsOf(comp)
	fc := 0
	for _, b := range cb[:9] {
		fc <<= 1
		if b {
			fc |= 1
		}
	}
	if fc != int(x[0]) {
		return comp, dec, keepC, keepD, fmt.Sprintf("format: first code is %d, not the literal %d", fc, x[0])
	}
	if y, err := stdDecompress(comp); err != nil || !bytes.Equal(y, x) {
		return comp, dec, keepC, keepD, fmt.Sprintf("format: the reference decoder does not read Compress(x) back (err=%v)", err)
	}
	// the reader also accepts the reference stream (with its clear code)
	var d2 []byte
	if p := hxlib.Catch(func() { d2 = common.Decompress(ref) }); p != "" || !bytes.Equal(d2, x) {
		return comp, dec, keepC, keepD, "round trip: Decompress does not read the reference encoding of x " + p
	}
	return comp, dec, keepC, keepD, ""
}

func clone(b []byte) []byte { return append([]byte{}, b...) }

// perturb derives other byte strings of similar size from x (deterministic, for replay)
func perturb(x []byte, k int) []byte {
	y := make([]byte, len(x)+k)
	for i := range y {
		y[i] = byte(i*131+k) ^ 0x5a
		if i < len(x) {
			y[i] ^= x[len(x)-1-i]
		}
	}
	return y
}

// oracleComp = oracleCompLive + keep and re-check: the slices returned by Compress
// and Decompress are held while further Compress / Decompress calls run; a returned
// value must never change afterwards and must still decompress to x.
// The values reported to the model are the copies taken at return time.
func oracleComp(x []byte) (comp, dec []byte, msg string) {
	live, liveDec, keepC, keepD, msg := oracleCompLive(x)
	if keepC == nil {
		return live, liveDec, msg
	}
	if p := hxlib.Catch(func() {
		for k := 0; k < 3; k++ {
			o := common.Compress(perturb(x, k))
			_ = common.Decompress(o)
		}
		_ = common.Compress(x[:len(x)/2])
	}); p != "" && msg == "" {
		msg = "Compress/Decompress panics: " + p
	}
	if msg == "" && !bytes.Equal(live, keepC) {
		msg = fmt.Sprintf("aliasing: the %d bytes returned by Compress changed after later Compress calls", len(keepC))
	}
	if msg == "" && keepD != nil && !bytes.Equal(liveDec, keepD) {
		msg = fmt.Sprintf("aliasing: the %d bytes returned by Decompress changed after later calls", len(keepD))
	}
	if msg == "" {
		var d2 []byte
		if p := hxlib.Catch(func() { d2 = common.Decompress(live) }); p != "" || !bytes.Equal(d2, x) {
			msg = "round trip: a held Compress result no longer decompresses to x after later Compress calls " + p
		}
	}
	return keepC, keepD, msg
}

// oracleHold: several strings are compressed in a row, every result is held, then
// each is decompressed (what receipts / headers of several blocks do).
func oracleHold(xs [][]byte) (keeps [][]byte, msg string) {
	live := make([][]byte, len(xs))
	keeps = make([][]byte, len(xs))
	if p := hxlib.Catch(func() {
		for i, x := range xs {
			live[i] = common.Compress(x)
			keeps[i] = clone(live[i])
		}
	}); p != "" {
		return nil, "Compress panics: " + p
	}
	for i, x := range xs {
		var d []byte
		if p := hxlib.Catch(func() { d = common.Decompress(live[i]) }); p != "" {
			return keeps, "Decompress panics: " + p
		}
		if !bytes.Equal(live[i], keeps[i]) && msg == "" {
			msg = fmt.Sprintf("aliasing: result %d of %d held Compress results changed after later Compress calls", i, len(xs))
		}
		if !bytes.Equal(d, x) && msg == "" {
			msg = fmt.Sprintf("round trip: held result %d of %d no longer decompresses to its input (%d bytes in, %d back)", i, len(xs), len(x), len(d))
		}
	}
	return keeps, msg
}

func nontrivialComp(x, comp []byte) (bool, bool) {
	dictUsed, reset := false, false
	for _, c := range codesOf(comp) {
		if c >= 258 {
			dictUsed = true
		}
		if c == 256 {
			reset = true
		}
	}
	return len(x) > 0 && dictUsed, reset
}

// ---------- generators ----------

func sparse(r *rand.Rand, n, k int) []byte {
	b := make([]byte, n)
	for i := 0; i < k; i++ {
		j := r.Intn(n * 8)
		b[j/8] |= 1 << uint(j%8)
	}
	return b
}

func bloomBytes(r *rand.Rand) []byte {
	lb := txresult.NewLogsBloom(nil)
	n := 1 + r.Intn(12)
	if r.Intn(6) == 0 {
		n = 50 + r.Intn(400)
	}
	for i := 0; i < n; i++ {
		id := make([]byte, 20)
		r.Read(id)
		var idx [][]byte
		for j := 0; j < 1+r.Intn(4); j++ {
			v := make([]byte, 1+r.Intn(24))
			r.Read(v)
			idx = append(idx, v)
		}
		lb.AddLog(common.NewAddressWithTypeAndID(true, id), idx)
	}
	return lb.Bytes()
}

func smallInput(r *rand.Rand) (string, []byte) {
	switch r.Intn(13) {
	case 0:
		return "bloom-real", bloomBytes(r)
	case 1: // what CompressedBytes compresses: big.Int.Bytes of a sparse 2048-bit number
		return "bloom-sparse", new(big.Int).SetBytes(sparse(r, 256, r.Intn(40))).Bytes()
	case 2:
		return "sparse-256", sparse(r, 256, r.Intn(200))
	case 3:
		b := make([]byte, []int{0, 1, 2, 3, 4, 5, 7, 8, 9, 16}[r.Intn(10)])
		r.Read(b)
		return "tiny", b
	case 4:
		b := make([]byte, r.Intn(600))
		r.Read(b)
		return "random", b
	case 5: // one long run: every code after the first is the one being defined (KwKwK)
		return "run", bytes.Repeat([]byte{byte(r.Intn(256))}, 1+r.Intn(700))
	case 6:
		p := make([]byte, 2+r.Intn(3))
		r.Read(p)
		b := bytes.Repeat(p, 1+r.Intn(200))
		return "periodic", b[:1+r.Intn(len(b))]
	case 7: // runs of varying length
		var b []byte
		for len(b) < 50+r.Intn(500) {
			b = append(b, bytes.Repeat([]byte{byte(r.Intn(4))}, 1+r.Intn(30))...)
		}
		return "runs", b
	case 8: // small alphabet
		b := make([]byte, r.Intn(700))
		k := 2 + r.Intn(3)
		for i := range b {
			b[i] = byte(r.Intn(k)) * 85
		}
		return "alphabet", b
	case 9: // the width steps 9->10 at 255 codes: random data around that length
		b := make([]byte, 240+r.Intn(40))
		r.Read(b)
		return "width-10", b
	case 10:
		b := make([]byte, 760+r.Intn(40))
		r.Read(b)
		return "width-11", b
	case 11: // bytes at the extremes, incl. 0xff and the values 0/1 of clear/eof low bytes
		b := make([]byte, r.Intn(300))
		for i := range b {
			b[i] = []byte{0x00, 0x01, 0xfe, 0xff, 0x80}[r.Intn(5)]
		}
		return "extremes", b
	default: // KwKwK chains: a, aa, aaa ... interleaved with a separator
		var b []byte
		for i := 1; i < 2+r.Intn(30); i++ {
			b = append(b, bytes.Repeat([]byte{'a'}, i)...)
			if r.Intn(2) == 0 {
				b = append(b, 'b')
			}
		}
		return "kwkwk", b
	}
}

// dataCodes counts the codes other than clear/eof of the REFERENCE encoding of x
// (Go's compress/lzw), so that steering never depends on the code under test.
func dataCodes(x []byte) int {
	n := 0
	for _, c := range codesOf(stdCompress(x)) {
		if c != 256 && c != 257 {
			n++
		}
	}
	return n
}

// exactData returns the shortest prefix of data whose encoding has n data codes
// (the count grows by at most one per input byte, so it is hit exactly).
func exactData(data []byte, n int) []byte {
	lo, hi := 1, len(data)
	for lo < hi {
		mid := (lo + hi) / 2
		if dataCodes(data[:mid]) < n {
			lo = mid + 1
		} else {
			hi = mid
		}
	}
	return data[:lo]
}

type named struct {
	kind string
	x    []byte
}

// edgeInputs: inputs whose LAST data code is exactly the one that makes hi reach
// a width step (255, 767, 1791 data codes: eof must be written one bit wider) or
// the table limit (3838: Close must send clear, then eof with 9 bits), and their
// neighbours.  Generated on every run.
func edgeInputs(r *rand.Rand) []named {
	var out []named
	rnd := func(n int) []byte { b := make([]byte, n); r.Read(b); return b }
	alpha := func(n int) []byte {
		b := make([]byte, n)
		for i := range b {
			b[i] = byte(r.Intn(16)) * 17
		}
		return b
	}
	for _, t := range []int{255, 767, 1791, 3838} {
		for _, d := range []int{-1, 0, 1} {
			out = append(out, named{fmt.Sprintf("edge-%d%+d", t, d), exactData(rnd(t+1500), t+d)})
		}
		out = append(out, named{fmt.Sprintf("edge-%d+0", t), exactData(rnd(t+1500), t)})
		if t <= 1791 {
			out = append(out, named{fmt.Sprintf("edge-%d+0-alpha", t), exactData(alpha(6*t+3000), t)})
		}
	}
	// a dense 256-byte bloom cut to 255 codes when it has that many
	return out
}

// resetRepeat: random data up to the byte at which the table is reset (3838 data
// codes sent, the 3839th pending), followed by repetitions of the bytes around the
// reset point, so that the (code, byte) pair that was pending at the reset occurs
// again while the new table is still young.
func resetRepeat(r *rand.Rand) []byte {
	data := make([]byte, 6000)
	r.Read(data)
	if r.Intn(3) == 0 { // fewer distinct bytes: longer phrases before the reset
		for i := range data {
			data[i] &= 0x3f
		}
	}
	p := exactData(data, 3839)
	k := 8 + r.Intn(120)
	if k > len(p) {
		k = len(p)
	}
	tail := append([]byte{}, p[len(p)-k:]...)
	x := append([]byte{}, p...)
	for i := 0; i < 2+r.Intn(5); i++ {
		x = append(x, tail...)
	}
	g := make([]byte, r.Intn(300))
	r.Read(g)
	return append(x, g...)
}

// denseLong: 10-32 KiB of dense data with re-use of recent windows: several table
// resets, each followed by material seen just before it.
func denseLong(r *rand.Rand, max int) []byte {
	n := 10000 + r.Intn(max-10000)
	x := make([]byte, 4000+r.Intn(1500))
	r.Read(x)
	for len(x) < n {
		if r.Intn(3) == 0 {
			g := make([]byte, 100+r.Intn(1500))
			r.Read(g)
			x = append(x, g...)
		} else {
			w := 16 + r.Intn(400)
			back := w + r.Intn(600)
			if back > len(x) {
				back = len(x)
			}
			if w > back {
				w = back
			}
			x = append(x, x[len(x)-back:len(x)-back+w]...)
		}
	}
	return x[:n]
}

func largeInput(r *rand.Rand, i int) (string, []byte) {
	switch i % 8 {
	case 0: // enough distinct material to run out of codes: table reset(s)
		b := make([]byte, 4500+r.Intn(3700))
		r.Read(b)
		return "large-random", b
	case 1: // the pair pending at a table reset occurs again right after it
		return "reset-repeat", resetRepeat(r)
	case 2: // several resets, 10-32 KiB
		return "dense-long", denseLong(r, 32768)
	case 3:
		return "large-run", bytes.Repeat([]byte{byte(r.Intn(256))}, 4000+r.Intn(4192))
	case 4:
		b := make([]byte, 6000+r.Intn(2192))
		for j := range b {
			b[j] = byte(r.Intn(3))
		}
		return "large-alphabet", b
	case 5: // sparse multi-kilobyte
		return "large-sparse", sparse(r, 2048+r.Intn(6144), 100+r.Intn(2000))
	case 6: // two resets
		b := make([]byte, 8192)
		r.Read(b)
		return "large-8k", b
	default:
		var b []byte
		for len(b) < 5000 {
			p := make([]byte, 1+r.Intn(6))
			r.Read(p)
			b = append(b, bytes.Repeat(p, 1+r.Intn(60))...)
		}
		return "large-periodic", b
	}
}

// streams for Decompress that no Compress call produces
func malformed(r *rand.Rand) (string, []byte) {
	x := make([]byte, 1+r.Intn(300))
	switch r.Intn(3) {
	case 0:
		r.Read(x)
	case 1:
		for i := range x {
			x[i] = byte(r.Intn(3))
		}
	default:
		x = bytes.Repeat([]byte{7}, len(x))
	}
	c := common.Compress(x)
	switch r.Intn(9) {
	case 0:
		return "dec-truncated", c[:r.Intn(len(c))]
	case 1:
		c[r.Intn(len(c))] ^= 1 << uint(r.Intn(8))
		return "dec-bitflip", c
	case 2:
		g := make([]byte, 1+r.Intn(5))
		r.Read(g)
		return "dec-trailing", append(c, g...)
	case 3:
		g := make([]byte, 1+r.Intn(40))
		r.Read(g)
		return "dec-random", g
	case 4: // the reference format: leading clear code
		return "dec-stdlib", stdCompress(x)
	case 5: // clear codes in the middle, eof right after clear, code == hi right after clear
		w := newCodeWriter()
		for i := 0; i < 1+r.Intn(40); i++ {
			switch r.Intn(8) {
			case 0:
				w.put(256)
			case 1:
				w.put(w.hi) // the code being defined
			case 2:
				w.put(258 + r.Intn(w.hi-257+1)) // some known (or just unknown) code
			default:
				w.put(r.Intn(256))
			}
		}
		if r.Intn(4) > 0 {
			w.put(257)
		}
		return "dec-codes", packBits(w.bits)
	case 6: // no eof code at all
		w := newCodeWriter()
		for i := 0; i < 1+r.Intn(20); i++ {
			w.put(r.Intn(256))
		}
		return "dec-noeof", packBits(w.bits)
	case 7: // invalid code: beyond hi
		w := newCodeWriter()
		for i := 0; i < 1+r.Intn(10); i++ {
			w.put(r.Intn(256))
		}
		w.put(w.hi + 1 + r.Intn(20))
		w.put(65)
		w.put(257)
		return "dec-invalid", packBits(w.bits)
	default:
		return "dec-empty-ish", []byte{byte(r.Intn(256))}
	}
}

// an encoder that never clears: the reader saturates at hi = 4095, width 12
func saturating(r *rand.Rand) []byte {
	w := newCodeWriter()
	n := 3800 + r.Intn(600)
	for i := 0; i < n; i++ {
		switch {
		case i > 3 && r.Intn(10) == 0:
			w.put(258 + r.Intn(w.hi-258))
		case i > 3 && r.Intn(30) == 0:
			w.put(w.hi)
		default:
			w.put(r.Intn(256))
		}
	}
	// after saturation: the frozen table, including the last defined code 4095
	for i := 0; i < 30; i++ {
		switch r.Intn(4) {
		case 0:
			w.put(4095)
		case 1:
			w.put(4000 + r.Intn(96))
		default:
			w.put(r.Intn(256))
		}
	}
	if r.Intn(3) == 0 {
		w.put(256)
		w.put(66)
		w.put(258)
	}
	w.put(257)
	return packBits(w.bits)
}

func emitComp(c *hxlib.Ctx, kind string, x []byte) {
	comp, dec, msg := oracleComp(x)
	nt, reset := nontrivialComp(x, comp)
	if reset {
		kind += "+reset"
	}
	cs := hxlib.Case{Kind: kind, Input: map[string]interface{}{"t": "comp", "v": compIn{hex.EncodeToString(x)}},
		Nontrivial: nt, OracleErr: msg}
	if !c.OracleOnly {
		if bytes.Equal(dec, x) {
			cs.Coq = fmt.Sprintf("(CCompRT %s %s)", hxpack.Bytes(x), hxpack.Bytes(comp))
		} else {
			cs.Coq = fmt.Sprintf("(CComp %s %s %s)", hxpack.Bytes(x), hxpack.Bytes(comp), hxpack.Bytes(dec))
		}
	} else {
		cs.Key = hex.EncodeToString(x)
	}
	c.Emit(cs)
}

func emitHold(c *hxlib.Ctx, xs [][]byte) {
	keeps, msg := oracleHold(xs)
	var in holdIn
	var pairs []string
	for i, x := range xs {
		in.Xs = append(in.Xs, hex.EncodeToString(x))
		if keeps != nil && keeps[i] != nil {
			pairs = append(pairs, "("+hxpack.Bytes(x)+", "+hxpack.Bytes(keeps[i])+")")
		}
	}
	cs := hxlib.Case{Kind: fmt.Sprintf("hold-%d", len(xs)), Input: map[string]interface{}{"t": "hold", "v": in},
		Nontrivial: len(xs) > 1, OracleErr: msg}
	if !c.OracleOnly {
		cs.Coq = "(CSeq " + hxlib.CoqList(pairs) + ")"
	} else {
		cs.Key = strings.Join(in.Xs, "|")
	}
	c.Emit(cs)
}

func oracleDec(b []byte) (out []byte, msg string) {
	if p := hxlib.Catch(func() { out = common.Decompress(b) }); p != "" {
		return nil, "Decompress panics on a malformed stream: " + p
	}
	return out, ""
}

func emitDec(c *hxlib.Ctx, kind string, b []byte) {
	out, msg := oracleDec(b)
	cs := hxlib.Case{Kind: kind, Input: map[string]interface{}{"t": "dec", "v": decIn{hex.EncodeToString(b)}},
		Nontrivial: len(out) > 0, OracleErr: msg}
	if !c.OracleOnly {
		cs.Coq = fmt.Sprintf("(CDecomp %s %s)", hxpack.Bytes(b), hxpack.Bytes(out))
	} else {
		cs.Key = hex.EncodeToString(b)
	}
	c.Emit(cs)
}

func gen(c *hxlib.Ctx) {
	r := c.Rand
	emitComp(c, "empty", []byte{})
	emitComp(c, "zero-bloom", make([]byte, 256))
	for v := 0; v < 256; v += 51 {
		emitComp(c, "single", []byte{byte(v)})
	}
	nLarge := c.N(24)
	if c.OracleOnly {
		nLarge = 12
	}
	var edges []named
	for k := 0; k < c.Scale; k++ {
		edges = append(edges, edgeInputs(r)...)
	}
	li := 0
	nSmall := c.N(470)
	every := nSmall / (nLarge + 1)
	if every < 1 {
		every = 1
	}
	for i := 0; i < nSmall; i++ {
		kind, x := smallInput(r)
		emitComp(c, kind, x)
		if i%every == every-1 && li < nLarge {
			kind, x := largeInput(r, li)
			li++
			emitComp(c, kind, x)
		}
		if i%20 == 3 && len(edges) > 0 {
			emitComp(c, edges[0].kind, edges[0].x)
			edges = edges[1:]
		}
		if i%25 == 11 { // several results held at once
			var xs [][]byte
			for k := 0; k < 2+r.Intn(5); k++ {
				_, x := smallInput(r)
				xs = append(xs, x)
			}
			emitHold(c, xs)
		}
		if i%4 == 0 {
			kind, b := malformed(r)
			emitDec(c, kind, b)
		}
	}
	for _, e := range edges {
		emitComp(c, e.kind, e.x)
	}
	if c.OracleOnly { // search mode: more of the expensive shapes, no Coq output needed
		for i := 0; i < 12; i++ {
			emitComp(c, "reset-repeat", resetRepeat(r))
			emitComp(c, "dense-long", denseLong(r, 65536))
		}
	}
	for i := 0; i < c.N(3); i++ {
		emitDec(c, "dec-saturated", saturating(r))
	}
	// canary: a compressed form with one bit flipped — the model must disagree
	{
		x := []byte("canary canary canary")
		comp := common.Compress(x)
		bad := append([]byte{}, comp...)
		bad[len(bad)/2] ^= 0x10
		c.Emit(hxlib.Case{Kind: "canary", Canary: true,
			Coq: fmt.Sprintf("(CComp %s %s %s)", hxpack.Bytes(x), hxpack.Bytes(bad), hxpack.Bytes(x))})
	}
}

func replay(raw json.RawMessage) string {
	var in struct {
		T string          `json:"t"`
		V json.RawMessage `json:"v"`
	}
	if err := json.Unmarshal(raw, &in); err != nil {
		return "bad replay input: " + err.Error()
	}
	switch in.T {
	case "comp":
		var v compIn
		json.Unmarshal(in.V, &v)
		x, _ := hex.DecodeString(v.X)
		_, _, msg := oracleComp(x)
		return msg
	case "hold":
		var v holdIn
		json.Unmarshal(in.V, &v)
		var xs [][]byte
		for _, h := range v.Xs {
			x, _ := hex.DecodeString(h)
			xs = append(xs, x)
		}
		_, msg := oracleHold(xs)
		return msg
	case "dec":
		var v decIn
		json.Unmarshal(in.V, &v)
		b, _ := hex.DecodeString(v.B)
		_, msg := oracleDec(b)
		return msg
	}
	return "unknown case type " + in.T
}

func main() {
	hxlib.Main(hxlib.Spec{
		ID: "C25",
		Rule: "inputs: what LogsBloom.CompressedBytes compresses (real blooms built with AddLog, big.Int.Bytes of sparse 2048-bit numbers), sparse 256-byte arrays, tiny strings, random bytes, single runs (every code is the one being defined), periodic strings, runs of varying length, small alphabets, byte extremes, lengths at the 9->10 and 10->11 bit steps; " +
			"every ~20th case is 4-8 KiB (random, runs, alphabets, sparse, periodic) random data up to a table reset followed by repetitions of the bytes around the reset point, or 10-32 KiB dense data with re-used windows (several resets); on every run inputs cut by bisection (steered by the reference encoder) to exactly 255/767/1791/3838 data codes and their neighbours (the last code reaches a width step / the table limit, so Close must widen / clear before eof); " +
			"observed: Compress(x) bytes and Decompress of it, compared byte for byte with the model; direct oracle: round trip, and bit-for-bit equality with Go's compress/lzw stream minus its leading 9-bit clear code, first code = literal x[0], both reference directions decode; keep and re-check: every slice returned by Compress/Decompress is copied when returned and compared again after further Compress/Decompress calls (in every case, and in hold-k cases where 2-6 results are held and decompressed afterwards): a returned value never changes and still decompresses to its input; " +
			"malformed stream for Decompress (truncated, bit flips, trailing bytes, random bytes, reference format with clear code, hand-built code sequences with clear/eof/undefined/being-defined codes, no eof, saturated reader with 4095 codes and no clear): output bytes compared with the model, no panic; " +
			"non-trivial = non-empty input whose stream uses at least one dictionary code (compress cases) / at least one byte decoded (decompress cases); distinct = distinct case term",
		Shard:    48,
		Preamble: "From Coq Require Import Uint63.\nFrom GoloopRun Require Import Run_Pack63 Run_C25.",
		Gen:      gen, Replay: replay,
	})
}
