// c32: network.Authenticator signature exchange (authenticator.go, peerid.go)
// driven at the packet-handler level vs Model_Authenticator, plus the direct
// oracle of C32: an identity is assigned only to a key that signed the secret
// of this very session.
package main

import (
	"bytes"
	"crypto/ecdsa"
	"crypto/elliptic"
	"encoding/hex"
	"encoding/json"
	"fmt"
	"io"
	"math/big"
	"math/rand"
	"net"
	"sync"
	"time"

	"github.com/decred/dcrd/dcrec/secp256k1/v4"
	"golang.org/x/crypto/sha3"

	"github.com/icon-project/goloop/common/codec"
	"github.com/icon-project/goloop/common/crypto"
	"github.com/icon-project/goloop/common/wallet"
	"github.com/icon-project/goloop/module"
	"github.com/icon-project/goloop/network"
	"verif/harness/hxlib"
)

// ---------------------------------------------------------------------------
// a connection that records what the peer writes

// (an accepted peer gets a receive goroutine: its Read waits until the connection is closed)
type capConn struct {
	mu     sync.Mutex
	out    bytes.Buffer
	closed bool
	done   chan struct{}
}

func newCapConn() *capConn { return &capConn{done: make(chan struct{})} }

type dummyAddr struct{}

func (dummyAddr) Network() string { return "verif" }
func (dummyAddr) String() string  { return "verif" }

func (c *capConn) Read(b []byte) (int, error) { <-c.done; return 0, io.EOF }
func (c *capConn) Write(b []byte) (int, error) {
	c.mu.Lock()
	defer c.mu.Unlock()
	return c.out.Write(b)
}
func (c *capConn) Close() error {
	c.mu.Lock()
	defer c.mu.Unlock()
	if !c.closed {
		c.closed = true
		close(c.done)
	}
	return nil
}
func (c *capConn) LocalAddr() net.Addr                { return dummyAddr{} }
func (c *capConn) RemoteAddr() net.Addr               { return dummyAddr{} }
func (c *capConn) SetDeadline(t time.Time) error      { return nil }
func (c *capConn) SetReadDeadline(t time.Time) error  { return nil }
func (c *capConn) SetWriteDeadline(t time.Time) error { return nil }

func (c *capConn) take() []network.VerifPacket {
	c.mu.Lock()
	defer c.mu.Unlock()
	p := network.VerifParsePackets(c.out.Bytes())
	c.out.Reset()
	return p
}

// ---------------------------------------------------------------------------
// independent ground truth: secp256k1 point parsing, ECDSA verification, SHA3

var curve = secp256k1.S256()

func parsePubIndep(b []byte) (x, y *big.Int, ok bool) {
	P := curve.Params().P
	rhs := func(x *big.Int) *big.Int {
		r := new(big.Int).Mul(x, x)
		r.Mul(r, x)
		r.Add(r, big.NewInt(7))
		return r.Mod(r, P)
	}
	switch len(b) {
	case 33:
		if b[0] != 2 && b[0] != 3 {
			return nil, nil, false
		}
		x = new(big.Int).SetBytes(b[1:])
		if x.Cmp(P) >= 0 {
			return nil, nil, false
		}
		y = new(big.Int).ModSqrt(rhs(x), P)
		if y == nil {
			return nil, nil, false
		}
		if y.Bit(0) != uint(b[0]&1) {
			y.Sub(P, y)
		}
		return x, y, true
	case 65:
		if b[0] != 4 && b[0] != 6 && b[0] != 7 {
			return nil, nil, false
		}
		x = new(big.Int).SetBytes(b[1:33])
		y = new(big.Int).SetBytes(b[33:])
		if x.Cmp(P) >= 0 || y.Cmp(P) >= 0 {
			return nil, nil, false
		}
		if b[0] != 4 && y.Bit(0) != uint(b[0]&1) {
			return nil, nil, false
		}
		y2 := new(big.Int).Mul(y, y)
		y2.Mod(y2, P)
		if y2.Cmp(rhs(x)) != 0 {
			return nil, nil, false
		}
		return x, y, true
	}
	return nil, nil, false
}

func uncompressed(x, y *big.Int) []byte {
	u := make([]byte, 65)
	u[0] = 4
	x.FillBytes(u[1:33])
	y.FillBytes(u[33:])
	return u
}

func sha3sum(b []byte) []byte { d := sha3.Sum256(b); return d[:] }

// verifyIndep: does R|S (first 64 bytes of a 64/65-byte signature) verify under (x,y) over hash?
// R and S are taken modulo the group order, as the code's scalar parser does.
func verifyIndep(x, y *big.Int, hash, sig []byte) bool {
	if len(sig) != 64 && len(sig) != 65 {
		return false
	}
	n := curve.Params().N
	r := new(big.Int).SetBytes(sig[:32])
	s := new(big.Int).SetBytes(sig[32:64])
	r.Mod(r, n)
	s.Mod(s, n)
	if r.Sign() == 0 || s.Sign() == 0 {
		return false
	}
	return ecdsa.Verify(&ecdsa.PublicKey{Curve: curve, X: x, Y: y}, hash, r, s)
}

type truth struct {
	pubU     []byte // uncompressed form of the presented key, nil if it is not a key
	hContent []byte
	hPub     []byte
	sigOK    bool
	id       []byte // address of the presented key
}

func groundTruth(pub, sig, content []byte) truth {
	t := truth{hContent: sha3sum(content)}
	if x, y, ok := parsePubIndep(pub); ok {
		t.pubU = uncompressed(x, y)
		t.hPub = sha3sum(t.pubU[1:])
		t.id = t.hPub[12:]
		t.sigOK = verifyIndep(x, y, t.hContent, sig)
	}
	return t
}

func (t truth) coq() string {
	return fmt.Sprintf("(mkT %s %s %s %s)",
		hxlib.CoqOpt(t.pubU != nil, hxlib.CoqBytes(t.pubU)), hxlib.CoqBytes(t.hContent), hxlib.CoqBytes(t.hPub), hxlib.CoqBool(t.sigOK))
}

// ---------------------------------------------------------------------------
// case description

type authIn struct {
	Role     string `json:"role"` // server (handleSignatureRequest) | client (handleSignatureResponse) | verify (VerifySignature)
	SelfKey  string `json:"self_key"`
	PeerKey  string `json:"peer_key"`
	OtherKey string `json:"other_key"`
	Signer   string `json:"signer"`  // peer other self
	Over     string `json:"over"`    // this other-session empty pub secret0 random double
	SigForm  string `json:"sig_form"` // rsv rs
	PubOf    string `json:"pub_of"`  // signer peer other self
	PubFmt   string `json:"pub_fmt"` // compressed uncompressed hybrid
	MutSig   []int  `json:"mut_sig,omitempty"` // position, xor mask
	MutPub   []int  `json:"mut_pub,omitempty"`
	SigLen   int    `json:"sig_len"` // -1: unchanged; else cut / zero-extend to this length
	PubLen   int    `json:"pub_len"`
	HighS    bool   `json:"high_s,omitempty"` // replace S by N-S (the other valid form of the same signature)
	ErrText  string `json:"err_text,omitempty"`
	Src      string `json:"src,omitempty"`    // claimed packet source: "" peer other
	Decode   string `json:"decode,omitempty"` // "" | extra | garbage | wrongtype
	Sub      string `json:"sub,omitempty"`    // "" expected | other (the other signature message) | twice
	Seed     int64  `json:"seed"`
	// scenarios over several sessions (roles fresh-in, fresh-out, relay)
	Count     int  `json:"count,omitempty"`      // number of successive sessions
	SameParam bool `json:"same_param,omitempty"` // the other end supplies the same handshake key every time
}

type sessionEnds struct {
	aS, aC *network.Authenticator
	nS, nC *network.VerifNextHandler
	pS, pC *network.Peer
	cS, cC *capConn
	req    network.SignatureRequest  // the honest request the real client produced
	resp   network.SignatureResponse // the honest response of the real server (filled by finish)
}

func walletOf(hexKey string) module.Wallet {
	sk, err := crypto.ParsePrivateKey(unhex(hexKey))
	if err != nil {
		panic(err)
	}
	w, _ := wallet.NewFromPrivateKey(sk)
	return w
}

func unhex(s string) []byte { b, _ := hex.DecodeString(s); return b }

// handshake runs the secure-parameter exchange between a real dialling end C
// (wallet wc) and a real accepting end S (wallet ws) and stops when C has sent
// its SignatureRequest.
func handshake(ws, wc module.Wallet) (*sessionEnds, string) {
	e := &sessionEnds{cS: newCapConn(), cC: newCapConn()}
	e.aS, e.nS = network.VerifNewAuthenticator(ws)
	e.aC, e.nC = network.VerifNewAuthenticator(wc)
	e.pS = network.VerifNewPeer(e.cS, true, "")
	e.pC = network.VerifNewPeer(e.cC, false, "verif")
	network.VerifAuthOnPeer(e.aS, e.pS)
	network.VerifAuthOnPeer(e.aC, e.pC)
	pk := e.cC.take()
	if len(pk) != 1 || pk[0].Sub != network.VerifSubSecureRequest {
		return nil, "dialling end did not send a SecureRequest"
	}
	network.VerifAuthOnPacket(e.aS, e.pS, pk[0].Sub, pk[0].Payload, pk[0].Src)
	pk = e.cS.take()
	if len(pk) != 1 || pk[0].Sub != network.VerifSubSecureResponse || e.pS.IsClosed() {
		return nil, "accepting end did not answer the SecureRequest"
	}
	network.VerifAuthOnPacket(e.aC, e.pC, pk[0].Sub, pk[0].Payload, pk[0].Src)
	pk = e.cC.take()
	if len(pk) != 1 || pk[0].Sub != network.VerifSubSignatureRequest || e.pC.IsClosed() {
		return nil, "dialling end did not send a SignatureRequest"
	}
	if _, err := codec.MP.UnmarshalFromBytes(pk[0].Payload, &e.req); err != nil {
		return nil, "SignatureRequest of the dialling end does not decode"
	}
	if !bytes.Equal(network.VerifPeerExtra(e.pS), network.VerifPeerExtra(e.pC)) || len(network.VerifPeerExtra(e.pS)) == 0 {
		return nil, "the two ends hold different session secrets"
	}
	return e, ""
}

// finish lets the real server answer the honest request (for client-role cases).
func (e *sessionEnds) finish() string {
	network.VerifAuthOnPacket(e.aS, e.pS, network.VerifSubSignatureRequest, codec.MP.MustMarshalToBytes(&e.req), network.VerifSelfID(e.aC))
	pk := e.cS.take()
	if len(pk) != 1 || pk[0].Sub != network.VerifSubSignatureResponse {
		return "accepting end did not answer the honest SignatureRequest"
	}
	if _, err := codec.MP.UnmarshalFromBytes(pk[0].Payload, &e.resp); err != nil {
		return "SignatureResponse does not decode"
	}
	if e.resp.Error != "" || e.pS.IsClosed() || !e.nS.Has(e.pS) {
		return fmt.Sprintf("accepting end refused the honest SignatureRequest: %q closed=%v next=%v %s", e.resp.Error, e.pS.IsClosed(), e.nS.Has(e.pS), e.pS.CloseInfo())
	}
	return ""
}

func pubBytes(w module.Wallet, format string) []byte {
	pk, err := crypto.ParsePublicKey(w.PublicKey())
	if err != nil {
		panic(err)
	}
	switch format {
	case "uncompressed":
		return pk.SerializeUncompressed()
	case "hybrid":
		u := pk.SerializeUncompressed()
		u[0] = 6 | (u[64] & 1)
		return u
	}
	return pk.SerializeCompressed()
}

func resize(b []byte, n int) []byte {
	if n < 0 {
		return b
	}
	if n <= len(b) {
		return append([]byte(nil), b[:n]...)
	}
	return append(append([]byte(nil), b...), make([]byte, n-len(b))...)
}

func mutate(b []byte, m []int) []byte {
	if len(m) != 2 || m[0] < 0 || m[0] >= len(b) {
		return b
	}
	c := append([]byte(nil), b...)
	c[m[0]] ^= byte(m[1])
	return c
}

type caseOut struct {
	coq        string
	oracle     string
	nontrivial bool
}

// release stops the goroutines an accepted peer started.
func (e *sessionEnds) release() {
	e.pS.Close("verif: case done")
	e.pC.Close("verif: case done")
}

func runAuth(in authIn) (out caseOut) {
	fail := func(format string, a ...interface{}) {
		if out.oracle == "" {
			out.oracle = fmt.Sprintf(format, a...)
		}
	}
	switch in.Role {
	case "fresh-in", "fresh-out":
		return runFresh(in)
	case "relay":
		return runRelay(in)
	}
	wSelf, wPeer, wOther := walletOf(in.SelfKey), walletOf(in.PeerKey), walletOf(in.OtherKey)
	r := rand.New(rand.NewSource(in.Seed))
	var ws, wc module.Wallet
	if in.Role == "client" {
		ws, wc = wPeer, wSelf
	} else {
		ws, wc = wSelf, wPeer
	}
	e, msg := handshake(ws, wc)
	if msg != "" {
		fail("honest handshake: %s", msg)
		return
	}
	defer e.release()
	// the authenticator under test, its peer object, its next handler, its connection
	aT, pT, nT, cT := e.aS, e.pS, e.nS, e.cS
	if in.Role == "client" {
		if msg := e.finish(); msg != "" {
			fail("honest handshake: %s", msg)
			return
		}
		aT, pT, nT, cT = e.aC, e.pC, e.nC, e.cC
	}
	extra := network.VerifPeerExtra(pT)
	self := network.VerifSelfID(aT)

	// --- the presented signature ---
	signerW := map[string]module.Wallet{"peer": wPeer, "other": wOther, "self": wSelf}[in.Signer]
	var content, captured []byte
	switch in.Over {
	case "this":
		content = extra
	case "other-session":
		e1, msg := handshake(ws, wc) // an earlier session between the same two parties
		if msg != "" {
			fail("honest handshake (session 1): %s", msg)
			return
		}
		defer e1.release()
		if in.Role == "client" {
			if msg := e1.finish(); msg != "" {
				fail("honest handshake (session 1): %s", msg)
				return
			}
			content = network.VerifPeerExtra(e1.pC)
			captured = e1.resp.Signature
		} else {
			content = network.VerifPeerExtra(e1.pS)
			captured = e1.req.Signature
		}
		if bytes.Equal(content, extra) {
			fail("two sessions derived the same secret")
			return
		}
	case "empty":
		content = nil
	case "pub":
		content = signerW.PublicKey()
	case "secret0":
		content = network.VerifPeerSecrets(pT)[0]
	case "double":
		content = sha3sum(extra)
	default:
		content = make([]byte, 32)
		r.Read(content)
	}
	sig, err := signerW.Sign(sha3sum(content))
	if err != nil {
		fail("harness cannot sign: %v", err)
		return
	}
	if captured != nil && in.Signer == "peer" {
		// replay of the very bytes the counterpart sent in the earlier session
		if !bytes.Equal(captured, sig) {
			fail("the signature the real counterpart sent in session 1 is not Sign(SHA3(secret of session 1)) by its wallet: the code does not sign the session secret")
		}
		sig = append([]byte(nil), captured...)
	}
	if in.Over == "this" && in.Signer == "peer" {
		// the bytes the real counterpart produced for this session
		honest := e.req.Signature
		if in.Role == "client" {
			honest = e.resp.Signature
		}
		if !bytes.Equal(honest, sig) {
			fail("the signature the real counterpart sent in this handshake is not Sign(SHA3(this session's secret)) by its wallet: the code does not sign this session's secret")
		}
		sig = append([]byte(nil), honest...)
	}
	if in.HighS {
		n := curve.Params().N
		s := new(big.Int).SetBytes(sig[32:64])
		s.Sub(n, s)
		s.FillBytes(sig[32:64])
	}
	if in.SigForm == "rs" {
		sig = sig[:64]
	}
	sig = mutate(resize(sig, in.SigLen), in.MutSig)
	// --- the presented key ---
	pubW := signerW
	switch in.PubOf {
	case "peer":
		pubW = wPeer
	case "other":
		pubW = wOther
	case "self":
		pubW = wSelf
	}
	pub := mutate(resize(pubBytes(pubW, in.PubFmt), in.PubLen), in.MutPub)

	gt := groundTruth(pub, sig, extra)

	if in.Role == "verify" {
		var id module.PeerID
		var verr error
		if p := hxlib.Catch(func() { id, verr = aT.VerifySignature(pub, sig, extra) }); p != "" {
			fail("VerifySignature panicked: %s", p)
			return
		}
		var idb []byte
		if id != nil {
			idb = id.Bytes()
		}
		if verr == nil {
			checkAssigned(fail, gt, idb, sig, "VerifySignature returned an id without error")
		} else if gt.pubU != nil && gt.sigOK {
			fail("VerifySignature refused a signature that verifies under the presented key over this session's secret: %v", verr)
		}
		out.nontrivial = gt.pubU != nil
		out.coq = fmt.Sprintf("(CVerify %s %s %s %s %s %s)", hxlib.CoqBytes(pub), hxlib.CoqBytes(sig), hxlib.CoqBytes(extra),
			gt.coq(), hxlib.CoqOpt(idb != nil, hxlib.CoqBytes(idb)), hxlib.CoqBool(verr != nil))
		return
	}

	// --- the message ---
	expectSub := network.VerifSubSignatureRequest
	otherSub := network.VerifSubSignatureResponse
	if in.Role == "client" {
		expectSub, otherSub = otherSub, expectSub
	}
	sub := expectSub
	if in.Sub == "other" {
		sub = otherSub
	}
	var payload []byte
	if sub == network.VerifSubSignatureRequest {
		payload = codec.MP.MustMarshalToBytes(&network.SignatureRequest{PublicKey: pub, Signature: sig, Rtt: time.Duration(r.Intn(1000))})
	} else {
		payload = codec.MP.MustMarshalToBytes(&network.SignatureResponse{PublicKey: pub, Signature: sig, Rtt: time.Duration(r.Intn(1000)), Error: in.ErrText})
	}
	switch in.Decode {
	case "extra":
		payload = append(payload, byte(r.Intn(256)))
	case "garbage":
		payload = make([]byte, 1+r.Intn(40))
		r.Read(payload)
	case "wrongtype":
		payload = codec.MP.MustMarshalToBytes("not a signature message")
	}
	// what the handler will see after decoding (the codec is trusted; it is not the subject here)
	coqMsg := "Undecodable"
	decodable := false
	if sub == network.VerifSubSignatureRequest {
		var m network.SignatureRequest
		if rem, err := codec.MP.UnmarshalFromBytes(payload, &m); err == nil && len(rem) == 0 {
			coqMsg = fmt.Sprintf("(Msg %s %s [])", hxlib.CoqBytes(m.PublicKey), hxlib.CoqBytes(m.Signature))
			decodable = true
		}
	} else {
		var m network.SignatureResponse
		if rem, err := codec.MP.UnmarshalFromBytes(payload, &m); err == nil && len(rem) == 0 {
			coqMsg = fmt.Sprintf("(Msg %s %s %s)", hxlib.CoqBytes(m.PublicKey), hxlib.CoqBytes(m.Signature), hxlib.CoqBytes([]byte(m.Error)))
			decodable = true
		}
	}
	// the source id in the packet header (always present on the wire): the sender's own, unless forged
	src := wPeer.Address().ID()
	if in.Src == "other" {
		src = wOther.Address().ID()
	}
	wsub, wproc, wexists := network.VerifWaitInfo(pT)
	coqWait := "None"
	if wexists {
		coqWait = fmt.Sprintf("(Some (%d, %s))", wsub, hxlib.CoqBool(wproc))
	}
	deliver := func() bool {
		if p := hxlib.Catch(func() { network.VerifAuthOnPacket(aT, pT, sub, payload, src) }); p != "" {
			fail("Authenticator.onPacket panicked: %s", p)
			return false
		}
		return true
	}
	if !deliver() {
		return
	}
	closed, next := pT.IsClosed(), nT.Has(pT)
	idb := network.VerifPeerIDBytes(pT)
	coqResp := "None"
	var respMsg *network.SignatureResponse
	for _, pk := range cT.take() {
		if pk.Sub == network.VerifSubSignatureResponse {
			var m network.SignatureResponse
			if _, err := codec.MP.UnmarshalFromBytes(pk.Payload, &m); err == nil {
				respMsg = &m
				coqResp = fmt.Sprintf("(Some %s)", hxlib.CoqBool(m.Error == ""))
			}
		}
	}
	// ---- direct oracle ----
	expectedMsg := in.Sub == "" && decodable && in.ErrText == ""
	if next && closed {
		fail("peer handed to the next handler and closed (%s)", pT.CloseInfo())
	}
	if !next && !closed {
		fail("peer neither accepted nor closed after the signature message")
	}
	if next {
		if !expectedMsg {
			fail("peer accepted on a message that was not the expected, well-formed signature message")
		}
		checkAssigned(fail, gt, idb, sig, "peer accepted")
		if in.Role == "server" && bytes.Equal(idb, self) {
			fail("peer accepted under our own identity")
		}
		if in.Role == "server" && (respMsg == nil || respMsg.Error != "") {
			fail("peer accepted but no signature response was sent")
		}
	} else if expectedMsg && gt.pubU != nil && gt.sigOK && !(in.Role == "server" && bytes.Equal(gt.id, self)) {
		fail("peer refused although its signature verifies under the presented key over this session's secret")
	}
	if !next && in.Role == "server" && respMsg != nil && respMsg.Error == "" {
		fail("a refused peer received our signature over the session secret")
	}
	out.nontrivial = gt.pubU != nil || !decodable
	out.coq = fmt.Sprintf("(CHandle %s %s %s %d %s %s %s %s %s %s %s)", hxlib.CoqBool(in.Role == "server"), hxlib.CoqBytes(self),
		coqWait, sub, hxlib.CoqBytes(extra), coqMsg, gt.coq(), hxlib.CoqBool(closed), hxlib.CoqBool(next),
		hxlib.CoqOpt(idb != nil, hxlib.CoqBytes(idb)), coqResp)
	return
}

// checkAssigned: an identity was assigned - the harness must be able to confirm the proof of possession.
func checkAssigned(fail func(string, ...interface{}), gt truth, id, sig []byte, what string) {
	switch {
	case gt.pubU == nil:
		fail("%s but the presented public key is not a secp256k1 point", what)
	case len(sig) != 64 && len(sig) != 65:
		fail("%s but the signature has %d bytes", what, len(sig))
	case !gt.sigOK:
		fail("%s but the signature does not verify under the presented key over the hash of this session's secret", what)
	case !bytes.Equal(id, gt.id):
		fail("%s with id %x but the address of the presented (verified) key is %x", what, id, gt.id)
	}
}

// ---------------------------------------------------------------------------
// scenarios over several sessions: the harness plays the other end itself
// (it holds no wallet key of anybody: it can only choose handshake keys and
// replay what it recorded)

const chanName = "verif"

func attackerKey(r *rand.Rand) []byte {
	_, x, y, err := elliptic.GenerateKey(elliptic.P256(), r)
	if err != nil {
		panic(err)
	}
	return elliptic.Marshal(elliptic.P256(), x, y)
}

// incoming: a fresh accepting-side peer of authenticator a receives a SecureRequest carrying `param`.
func incoming(a *network.Authenticator, param []byte, src []byte) (p *network.Peer, c *capConn, serverParam []byte, msg string) {
	c = newCapConn()
	p = network.VerifNewPeer(c, true, "")
	network.VerifAuthOnPeer(a, p)
	req := &network.SecureRequest{Channel: chanName, SecureSuites: []network.SecureSuite{network.SecureSuiteNone},
		SecureAeadSuites: []network.SecureAeadSuite{network.SecureAeadSuiteNone}, SecureParam: param}
	network.VerifAuthOnPacket(a, p, network.VerifSubSecureRequest, codec.MP.MustMarshalToBytes(req), src)
	pk := c.take()
	if len(pk) != 1 || pk[0].Sub != network.VerifSubSecureResponse {
		return p, c, nil, "accepting end did not answer the SecureRequest"
	}
	var resp network.SecureResponse
	if _, err := codec.MP.UnmarshalFromBytes(pk[0].Payload, &resp); err != nil || resp.SecureError != "" || p.IsClosed() {
		return p, c, nil, "accepting end refused the SecureRequest"
	}
	return p, c, resp.SecureParam, ""
}

// outgoing: a fresh dialling-side peer of authenticator a; returns the handshake key it sent.
func outgoing(a *network.Authenticator) (p *network.Peer, c *capConn, clientParam []byte, msg string) {
	c = newCapConn()
	p = network.VerifNewPeer(c, false, chanName)
	network.VerifAuthOnPeer(a, p)
	pk := c.take()
	if len(pk) != 1 || pk[0].Sub != network.VerifSubSecureRequest {
		return p, c, nil, "dialling end did not send a SecureRequest"
	}
	var req network.SecureRequest
	if _, err := codec.MP.UnmarshalFromBytes(pk[0].Payload, &req); err != nil {
		return p, c, nil, "SecureRequest does not decode"
	}
	return p, c, req.SecureParam, ""
}

// answer: the dialling peer p of a receives a SecureResponse carrying `param`; returns its SignatureRequest.
func answer(a *network.Authenticator, p *network.Peer, c *capConn, param []byte, src []byte) (*network.SignatureRequest, string) {
	resp := &network.SecureResponse{Channel: chanName, SecureSuite: network.SecureSuiteNone,
		SecureAeadSuite: network.SecureAeadSuiteNone, SecureParam: param}
	network.VerifAuthOnPacket(a, p, network.VerifSubSecureResponse, codec.MP.MustMarshalToBytes(resp), src)
	pk := c.take()
	if len(pk) != 1 || pk[0].Sub != network.VerifSubSignatureRequest || p.IsClosed() {
		return nil, "dialling end did not send a SignatureRequest"
	}
	var req network.SignatureRequest
	if _, err := codec.MP.UnmarshalFromBytes(pk[0].Payload, &req); err != nil {
		return nil, "SignatureRequest does not decode"
	}
	return &req, ""
}

func dupIndex(l [][]byte) (int, int) {
	for i := range l {
		for j := i + 1; j < len(l); j++ {
			if bytes.Equal(l[i], l[j]) {
				return i, j
			}
		}
	}
	return -1, -1
}

func coqBytesList(l [][]byte) string {
	var items []string
	for _, b := range l {
		items = append(items, hxlib.CoqBytes(b))
	}
	return hxlib.CoqList(items)
}

// runFresh: one Authenticator goes through several successive sessions within a
// short time; the handshake key it sends must be new every time (whatever the
// other end supplies), so that the secret of a session belongs to that session only.
func runFresh(in authIn) (out caseOut) {
	fail := func(format string, a ...interface{}) {
		if out.oracle == "" {
			out.oracle = fmt.Sprintf(format, a...)
		}
	}
	r := rand.New(rand.NewSource(in.Seed))
	a, _ := network.VerifNewAuthenticator(walletOf(in.SelfKey))
	other := walletOf(in.PeerKey).Address().ID()
	var own, supplied, extras [][]byte
	fixed := attackerKey(r)
	for i := 0; i < in.Count; i++ {
		param := fixed
		if !in.SameParam {
			param = attackerKey(r)
		}
		var p *network.Peer
		var mine []byte
		var msg string
		if in.Role == "fresh-in" {
			p, _, mine, msg = incoming(a, param, other)
		} else {
			var c *capConn
			p, c, mine, msg = outgoing(a)
			if msg == "" {
				_, msg = answer(a, p, c, param, other)
			}
		}
		if msg != "" {
			fail("session %d: %s", i, msg)
			p.Close("verif: case done")
			return
		}
		own = append(own, mine)
		supplied = append(supplied, param)
		extras = append(extras, network.VerifPeerExtra(p))
		p.Close("verif: session over")
	}
	if i, j := dupIndex(own); i >= 0 {
		fail("session secret not unique to this session: the authenticator sent the same handshake key in sessions %d and %d (%x); the other end then chooses the secret", i, j, own[i])
	}
	if i, j := dupIndex(extras); i >= 0 {
		fail("session secret not unique to this session: sessions %d and %d derived the same secret", i, j)
	}
	out.nontrivial = true
	out.coq = fmt.Sprintf("(CFresh %s %s %s)", coqBytesList(own), coqBytesList(supplied), coqBytesList(extras))
	return
}

// runRelay: three successive sessions, the harness in the middle without any wallet key.
//   0: it dials the server S and reads S's handshake key Ks
//   1: the victim V dials it; it answers with Ks and records V's handshake key Kv and V's SignatureRequest
//   2: it dials S with Kv and replays the recorded SignatureRequest
// S must not assign V's identity in session 2: V never talked to S.
func runRelay(in authIn) (out caseOut) {
	fail := func(format string, a ...interface{}) {
		if out.oracle == "" {
			out.oracle = fmt.Sprintf(format, a...)
		}
	}
	r := rand.New(rand.NewSource(in.Seed))
	wS, wV, wA := walletOf(in.SelfKey), walletOf(in.PeerKey), walletOf(in.OtherKey)
	aS, nS := network.VerifNewAuthenticator(wS)
	aV, _ := network.VerifNewAuthenticator(wV)
	attackerID, victimID := wA.Address().ID(), wV.Address().ID()
	// session 0 (and Count-1 more probes)
	var ks []byte
	for i := 0; i < in.Count; i++ {
		p0, _, k, msg := incoming(aS, attackerKey(r), attackerID)
		p0.Close("verif: probe done")
		if msg != "" {
			fail("session 0: %s", msg)
			return
		}
		ks = k
	}
	// session 1
	pV, cV, kv, msg := outgoing(aV)
	if msg != "" {
		fail("session 1: %s", msg)
		return
	}
	captured, msg := answer(aV, pV, cV, ks, attackerID)
	extra1 := network.VerifPeerExtra(pV)
	pV.Close("verif: session 1 over")
	if msg != "" {
		fail("session 1: %s", msg)
		return
	}
	// session 2
	p2, c2, ks2, msg := incoming(aS, kv, attackerID)
	defer p2.Close("verif: case done")
	if msg != "" {
		fail("session 2: %s", msg)
		return
	}
	extra2 := network.VerifPeerExtra(p2)
	src := victimID
	if in.Src == "other" {
		src = attackerID
	}
	wsub, wproc, wexists := network.VerifWaitInfo(p2)
	coqWait := "None"
	if wexists {
		coqWait = fmt.Sprintf("(Some (%d, %s))", wsub, hxlib.CoqBool(wproc))
	}
	payload := codec.MP.MustMarshalToBytes(captured)
	if p := hxlib.Catch(func() { network.VerifAuthOnPacket(aS, p2, network.VerifSubSignatureRequest, payload, src) }); p != "" {
		fail("Authenticator.onPacket panicked: %s", p)
		return
	}
	closed, next := p2.IsClosed(), nS.Has(p2)
	idb := network.VerifPeerIDBytes(p2)
	coqResp := "None"
	for _, pk := range c2.take() {
		if pk.Sub == network.VerifSubSignatureResponse {
			var m network.SignatureResponse
			if _, err := codec.MP.UnmarshalFromBytes(pk.Payload, &m); err == nil {
				coqResp = fmt.Sprintf("(Some %s)", hxlib.CoqBool(m.Error == ""))
			}
		}
	}
	if next {
		fail("identity %x assigned on a replayed signature: it was recorded in an earlier, finished session between other parties; the connecting party holds no key of that identity (signature over another session's secret accepted)", idb)
	}
	if !next && !closed {
		fail("peer neither accepted nor closed after the replayed signature message")
	}
	if bytes.Equal(ks2, ks) {
		fail("session secret not unique to this session: the accepting side sent the handshake key of an earlier session again (%x); the dialling side then chooses the secret", ks)
	}
	if bytes.Equal(extra1, extra2) {
		fail("session secret not unique to this session: the session between victim and attacker and the later session between attacker and server derived the same secret")
	}
	gt := groundTruth(captured.PublicKey, captured.Signature, extra2)
	out.nontrivial = true
	out.coq = fmt.Sprintf("(CHandle true %s %s %d %s (Msg %s %s []) %s %s %s %s %s)", hxlib.CoqBytes(network.VerifSelfID(aS)),
		coqWait, network.VerifSubSignatureRequest, hxlib.CoqBytes(extra2), hxlib.CoqBytes(captured.PublicKey), hxlib.CoqBytes(captured.Signature),
		gt.coq(), hxlib.CoqBool(closed), hxlib.CoqBool(next), hxlib.CoqOpt(idb != nil, hxlib.CoqBytes(idb)), coqResp)
	return
}

// ---------------------------------------------------------------------------
// generators

func randKey(r *rand.Rand) string {
	k := make([]byte, 32)
	r.Read(k)
	k[0] &= 0x7f
	k[31] |= 1
	return hex.EncodeToString(k)
}

func base(r *rand.Rand, role string) authIn {
	return authIn{Role: role, SelfKey: randKey(r), PeerKey: randKey(r), OtherKey: randKey(r),
		Signer: "peer", Over: "this", SigForm: "rsv", PubOf: "signer", PubFmt: "compressed",
		SigLen: -1, PubLen: -1, Seed: r.Int63()}
}

func emit(c *hxlib.Ctx, kind string, in authIn) {
	o := runAuth(in)
	c.Emit(hxlib.Case{Kind: in.Role + "-" + kind, Coq: o.coq, Input: in, Nontrivial: o.nontrivial, OracleErr: o.oracle, Key: mustJSON(in)})
}

func mustJSON(v interface{}) string { b, _ := json.Marshal(v); return string(b) }

func gen(c *hxlib.Ctx) {
	r := c.Rand
	roles := []string{"server", "client", "verify"}
	fmts := []string{"compressed", "uncompressed", "hybrid"}
	// 1. honest handshakes in every key format and both signature forms
	for i := 0; i < c.N(30); i++ {
		in := base(r, roles[i%3])
		in.PubFmt = fmts[(i/3)%3]
		if i%2 == 1 {
			in.SigForm = "rs"
		}
		if i%7 == 6 {
			in.HighS = true
		}
		if i%5 == 4 {
			in.Src = []string{"peer", "other"}[r.Intn(2)]
		}
		emit(c, "honest", in)
	}
	// 2. signature over something else than this session's secret (replay of session 1 first)
	overs := []string{"other-session", "other-session", "empty", "pub", "secret0", "double", "random"}
	for i := 0; i < c.N(70); i++ {
		in := base(r, roles[i%3])
		in.Over = overs[i%len(overs)]
		in.PubFmt = fmts[r.Intn(3)]
		emit(c, "over-"+in.Over, in)
	}
	// 3. another key: signed by X, key of Y presented (and the other way round), own key
	for i := 0; i < c.N(60); i++ {
		in := base(r, roles[i%3])
		switch i % 5 {
		case 0:
			in.Signer, in.PubOf = "other", "peer"
		case 1:
			in.Signer, in.PubOf = "peer", "other"
		case 2:
			in.Signer, in.PubOf = "other", "signer" // a third party proves its own key: accepted as that third party
		case 3:
			in.Signer, in.PubOf = "self", "signer" // our own identity
		default:
			in.Signer, in.PubOf = "peer", "self"
		}
		in.PubFmt = fmts[r.Intn(3)]
		in.Src = []string{"", "peer", "other"}[r.Intn(3)]
		emit(c, "key-"+in.Signer+"-as-"+in.PubOf, in)
	}
	// 4. every single-byte mutation of the signature and of the key, for sample sessions
	for s := 0; s < c.N(1); s++ {
		role := roles[s%2]
		proto := base(r, role)
		for pos := 0; pos < 65; pos++ {
			in := proto
			in.Seed = r.Int63()
			in.MutSig = []int{pos, 1 << uint(r.Intn(8))}
			emit(c, "mut-sig", in)
		}
		for _, f := range fmts {
			n := 33
			if f != "compressed" {
				n = 65
			}
			for pos := 0; pos < n; pos++ {
				in := proto
				in.Seed = r.Int63()
				in.PubFmt = f
				in.MutPub = []int{pos, 1 << uint(r.Intn(8))}
				emit(c, "mut-pub", in)
			}
		}
	}
	for i := 0; i < c.N(60); i++ {
		in := base(r, roles[i%3])
		in.PubFmt = fmts[r.Intn(3)]
		if r.Intn(2) == 0 {
			in.MutSig = []int{r.Intn(65), 1 + r.Intn(255)}
		} else {
			in.MutPub = []int{r.Intn(33), 1 + r.Intn(255)}
		}
		emit(c, "mut-random", in)
	}
	// 5. malformed lengths
	sigLens := []int{0, 1, 32, 63, 64, 65, 66, 128}
	pubLens := []int{0, 1, 32, 33, 34, 64, 65, 66}
	for i := 0; i < c.N(50); i++ {
		in := base(r, roles[i%3])
		if i%2 == 0 {
			in.SigLen = sigLens[(i/2)%len(sigLens)]
		} else {
			in.PubLen = pubLens[(i/2)%len(pubLens)]
			in.PubFmt = fmts[r.Intn(3)]
		}
		emit(c, "length", in)
	}
	// 6. message level: undecodable payloads, error text, unexpected message
	for i := 0; i < c.N(40); i++ {
		in := base(r, roles[i%2])
		switch i % 5 {
		case 0:
			in.Decode = "extra"
		case 1:
			in.Decode = "garbage"
		case 2:
			in.Decode = "wrongtype"
		case 3:
			in.Sub = "other"
			if r.Intn(2) == 0 {
				in.ErrText = "x"
			}
		default:
			in.Role = "client"
			in.ErrText = []string{"selfAddress", "InvalidSignatureError", " "}[r.Intn(3)]
		}
		emit(c, "message", in)
	}
	// 7. several successive sessions of one authenticator: fresh handshake key every time
	for i := 0; i < c.N(16); i++ {
		in := base(r, []string{"fresh-in", "fresh-out"}[i%2])
		in.Count = 2 + r.Intn(4)
		in.SameParam = i%4 < 2
		emit(c, "sessions", in)
	}
	// 8. relay over three successive sessions: probe the server's handshake key, let the victim
	//    dial us and answer with that key, dial the server with the victim's key and replay
	for i := 0; i < c.N(16); i++ {
		in := base(r, "relay")
		in.Count = 1 + r.Intn(3)
		if i%3 == 2 {
			in.Src = "other"
		}
		emit(c, "three-sessions", in)
	}
	// canaries: wrong observations the model must flag
	h := hxlib.CoqBytes(make([]byte, 32))
	c.Emit(hxlib.Case{Kind: "canary", Canary: true, Coq: fmt.Sprintf(
		"(CVerify [2;1] %s [5] (mkT (Some %s) %s %s false) (Some %s) false)",
		hxlib.CoqBytes(make([]byte, 65)), hxlib.CoqBytes(make([]byte, 65)), h, h, hxlib.CoqBytes(make([]byte, 20)))})
	c.Emit(hxlib.Case{Kind: "canary", Canary: true, Coq: "(CFresh [[4;1;2];[4;7;7];[4;1;2]] [[4;5];[4;5];[4;5]] [[1];[2];[3]])"})
	c.Emit(hxlib.Case{Kind: "canary", Canary: true, Coq: fmt.Sprintf(
		"(CHandle true [9] (Some (768, false)) 768 [5] (Msg [2;1] %s []) (mkT (Some %s) %s %s true) false true (Some [1;2;3]) (Some true))",
		hxlib.CoqBytes(make([]byte, 65)), hxlib.CoqBytes(make([]byte, 65)), h, h)})
}

func replay(raw json.RawMessage) string {
	var in authIn
	if err := json.Unmarshal(raw, &in); err != nil {
		return "bad replay input: " + err.Error()
	}
	return runAuth(in).oracle
}

func main() {
	hxlib.Main(hxlib.Spec{
		ID: "C32",
		Rule: "real handshakes between two Authenticators (random secp256k1 wallets, real ECDH session secrets) up to the signature message, which is then presented to Authenticator.onPacket (accepting side: SignatureRequest, dialling side: SignatureResponse) or to VerifySignature in a chosen variant: honest (3 key formats, RSV/RS, high-S), signed over another session's secret (replay of a captured session), over the empty string / the key / secret[0] / a double hash / random bytes, signed by another key than presented, own identity, every single-byte mutation of signature and key for a sample session plus random ones, lengths 0..128, undecodable payloads, error text, unexpected sub protocol, forged packet source; 2..5 successive sessions of one authenticator (accepting and dialling, the other end supplying the same or new handshake keys) whose own handshake keys and secrets must be pairwise different; the three-session relay (probe the server's handshake key, answer a dialling victim with it, dial the server with the victim's key and replay its SignatureRequest). non-trivial = presented key is a curve point, or the payload is undecodable; distinct = distinct case description",
		Shard: 90,
		Gen:   gen, Replay: replay,
	})
}
