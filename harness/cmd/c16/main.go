// c16: "A failed transaction changes nothing but the fee" — scripted contract
// calls that mutate balances and storage of several accounts, emit event logs
// and BTP messages, open nested frames, and then fail (status of choice, out of
// step, out of balance, timeout status) on a real test node, vs Model_TxExec,
// plus the direct oracle (pre-state = post-state except the payer's fee, no
// logs, no BTP messages).
package main

import (
	"encoding/json"
	"fmt"
	"os"

	"verif/harness/hxlib"
	"verif/harness/internal/txexec"
)

var env *txexec.Env

func getEnv() *txexec.Env {
	if env == nil {
		e, err := txexec.NewEnv()
		if err != nil {
			fmt.Fprintln(os.Stderr, "cannot create the test node:", err)
			os.Exit(2)
		}
		env = e
	}
	return env
}

func oracle(in *txexec.BlockIn, obs *txexec.BlockObs) string {
	if msg := txexec.OracleC16(in, obs); msg != "" {
		return msg
	}
	// the fee of a failed transaction must reach the treasury and nothing else may move:
	// the block-level accounting of C15 is part of "nothing but the fee"
	return txexec.OracleC15(in, obs)
}

func runOne(c *hxlib.Ctx, in *txexec.BlockIn) *txexec.BlockObs {
	var obs *txexec.BlockObs
	var err error
	if p := hxlib.Catch(func() { obs, err = getEnv().RunBlock(in) }); p != "" {
		c.Emit(hxlib.Case{Kind: "panic", Input: in, Nontrivial: true, Key: fmt.Sprint(in),
			OracleErr: "executing the block panicked: " + p})
		env = nil
		return nil
	}
	if err != nil {
		c.Emit(hxlib.Case{Kind: "exec-error", Input: in, Nontrivial: true, Key: fmt.Sprint(in),
			OracleErr: "block execution failed: " + err.Error()})
		return nil
	}
	cs := hxlib.Case{Kind: txexec.Kinds(in, obs), Input: in,
		Nontrivial: txexec.FailedAfterMutation(in, obs), OracleErr: oracle(in, obs)}
	if !c.OracleOnly {
		cs.Coq = txexec.CoqCase(in, obs)
	} else {
		cs.Key = fmt.Sprint(*in)
	}
	c.Emit(cs)
	return obs
}

func gen(c *hxlib.Ctx) {
	r := c.Rand
	txexec.RealHangBudget = 3 // frames that really hang (each blocks for txexec.TxTimeout)
	var canaryIn *txexec.BlockIn
	var canaryObs *txexec.BlockObs
	for i := 0; i < c.N(120); i++ {
		in := txexec.GenBlock(r, 1, 80)
		if obs := runOne(c, in); obs != nil && canaryObs == nil && txexec.FailedAfterMutation(in, obs) && txexec.HasFee(obs) {
			canaryIn, canaryObs = in, obs
		}
	}
	for i := 0; i < c.N(80); i++ {
		runOne(c, txexec.GenBlock(r, 6, 70))
	}
	if canaryObs != nil && !c.OracleOnly {
		for how := 0; how < 3; how++ {
			c.Emit(hxlib.Case{Kind: "canary", Canary: true, Coq: txexec.CoqCase(canaryIn, txexec.Corrupt(canaryObs, how))})
		}
	}
	if env != nil {
		env.Close()
	}
}

func replay(raw json.RawMessage) string {
	var in txexec.BlockIn
	if err := json.Unmarshal(raw, &in); err != nil {
		return "bad replay input: " + err.Error()
	}
	var obs *txexec.BlockObs
	var err error
	if p := hxlib.Catch(func() { obs, err = getEnv().RunBlock(&in) }); p != "" {
		return "executing the block panicked: " + p
	}
	if err != nil {
		return "block execution failed: " + err.Error()
	}
	return oracle(&in, obs)
}

func main() {
	hxlib.Main(hxlib.Spec{
		ID: "C16",
		Rule: "blocks of 1..6 real v3 transactions, 70-80% of them calls of a harness-defined scripted contract (registered through a wrapping ContractManager) whose script writes storage of any account, moves balances between any accounts, emits event logs and BTP messages, burns steps, opens nested frames (cc.Call) and makes real inter-call transfers, then fails at a chosen point with a chosen status (1..999, out of step, out of balance, negative amount, the timeout status) inside the root or a nested frame; the rest are transfers / calls that fail inside the real handlers after the debit (contract-form address without contract, call to an EOA); executed by service.Transition on a test node (basic platform, revision 4 or 8); receipts, all balances, storage values after every transaction compared with Model_TxExec; non-trivial = some transaction failed after a mutation it had to roll back; distinct = distinct Coq case term",
		Gen:  gen, Replay: replay, Shard: 50,
	})
}
