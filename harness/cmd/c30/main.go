// c30: network.Packet framing (WriteTo/ReadFrom, PacketWriter/PacketReader, FNV-1a-64
// footer) vs Model_Packet.
package main

import (
	"bytes"
	"encoding/hex"
	"encoding/json"
	"errors"
	"fmt"
	"io"
	"math/rand"
	"strings"

	"github.com/icon-project/goloop/network"
	"verif/harness/hxlib"
)

type F = network.VerifC30Fields

const (
	hdrSize = network.VerifC30HeaderSize
	ftrSize = network.VerifC30FooterSize
	payMax  = network.VerifC30PayloadMax
)

// ---------- JSON form of a packet (replay) ----------

type pktJ struct {
	Proto   uint16 `json:"proto"`
	Sub     uint16 `json:"sub"`
	Src     string `json:"src"`
	Dest    byte   `json:"dest"`
	TTL     byte   `json:"ttl"`
	Payload string `json:"payload,omitempty"`
	Pat     string `json:"pat,omitempty"` // payload = first N bytes of Pat repeated
	N       int    `json:"n,omitempty"`
	Hint    byte   `json:"hint"`
	Ext     string `json:"ext,omitempty"`
}

func expand(pat []byte, n int) []byte {
	if len(pat) == 0 {
		return nil
	}
	out := make([]byte, n)
	for i := range out {
		out[i] = pat[i%len(pat)]
	}
	return out
}

func toJ(f F) pktJ {
	return pktJ{Proto: f.Proto, Sub: f.Sub, Src: hex.EncodeToString(f.Src), Dest: f.Dest, TTL: f.TTL,
		Payload: hex.EncodeToString(f.Payload), Hint: f.Hint, Ext: hex.EncodeToString(f.Ext)}
}
func fromJ(j pktJ) F {
	src, _ := hex.DecodeString(j.Src)
	pl, _ := hex.DecodeString(j.Payload)
	if j.Pat != "" {
		pat, _ := hex.DecodeString(j.Pat)
		pl = expand(pat, j.N)
	}
	ext, _ := hex.DecodeString(j.Ext)
	return F{Proto: j.Proto, Sub: j.Sub, Src: src, Dest: j.Dest, TTL: j.TTL, Payload: pl, Hint: j.Hint, Ext: ext}
}

// ---------- Coq printers ----------

func coqPkt(f F) string {
	return fmt.Sprintf("(P %d %d %s %d %d %s %d %s)", f.Proto, f.Sub, hxlib.CoqBytes(f.Src), f.Dest, f.TTL,
		hxlib.CoqBytes(f.Payload), f.Hint, hxlib.CoqBytes(f.Ext))
}
func coqPkts(fs []F) string {
	it := make([]string, len(fs))
	for i, f := range fs {
		it[i] = coqPkt(f)
	}
	return hxlib.CoqList(it)
}
func coqChunks(cs [][]byte) string {
	it := make([]string, len(cs))
	for i, c := range cs {
		it[i] = hxlib.CoqBytes(c)
	}
	return hxlib.CoqList(it)
}

func sameFields(a, b F) bool {
	return a.Proto == b.Proto && a.Sub == b.Sub && bytes.Equal(a.Src, b.Src) && a.Dest == b.Dest && a.TTL == b.TTL &&
		bytes.Equal(a.Payload, b.Payload) && a.Hint == b.Hint && bytes.Equal(a.Ext, b.Ext)
}

// ---------- running the implementation ----------

// write packets through PacketWriter.WritePacket into a buffer
func writeAll(fs []F) (wire []byte, each [][]byte, perr string) {
	var buf bytes.Buffer
	perr = hxlib.Catch(func() {
		pw := network.NewPacketWriter(&buf)
		for _, f := range fs {
			before := buf.Len()
			pkt := network.VerifC30NewPacket(f)
			if err := pw.WritePacket(pkt); err != nil {
				panic("WritePacket error: " + err.Error())
			}
			each = append(each, append([]byte(nil), buf.Bytes()[before:]...))
		}
	})
	return buf.Bytes(), each, perr
}

// a reader that hands out the stream in the given chunks (an empty chunk is a (0, nil) read);
// eofWithData: the last non-empty chunk is returned together with io.EOF
type chunkReader struct {
	chunks      [][]byte
	eofWithData bool
}

func (c *chunkReader) Read(p []byte) (int, error) {
	if len(c.chunks) == 0 {
		return 0, io.EOF
	}
	if len(p) == 0 {
		return 0, nil
	}
	ch := c.chunks[0]
	n := copy(p, ch)
	if n == len(ch) {
		c.chunks = c.chunks[1:]
	} else {
		c.chunks[0] = ch[n:]
	}
	if c.eofWithData && len(c.chunks) == 0 {
		return n, io.EOF
	}
	return n, nil
}

func split(data []byte, sizes []int) [][]byte {
	var out [][]byte
	for _, s := range sizes {
		if len(data) == 0 && s > 0 {
			break
		}
		if s > len(data) {
			s = len(data)
		}
		out = append(out, data[:s])
		data = data[s:]
	}
	if len(data) > 0 {
		out = append(out, data)
	}
	return out
}

func cloneChunks(cs [][]byte) [][]byte {
	out := make([][]byte, len(cs))
	copy(out, cs)
	return out
}

type readRes struct {
	Pkts  []F
	Stop  int // 0 io.EOF, 1 other error
	Wire  [][]byte
	Panic string
}

// mode "bufio": PacketReader.ReadPacket loop; mode "direct": Packet.ReadFrom on the chunk reader itself
func readAll(chunks [][]byte, mode string, eofWithData bool, rewrite bool) (res readRes) {
	res.Panic = hxlib.Catch(func() {
		cr := &chunkReader{chunks: cloneChunks(chunks), eofWithData: eofWithData}
		var pr *network.PacketReader
		if mode == "bufio" {
			pr = network.NewPacketReader(cr)
		}
		for i := 0; i < 1<<20; i++ {
			var pkt *network.Packet
			var err error
			if mode == "bufio" {
				pkt, err = pr.ReadPacket()
			} else {
				pkt = &network.Packet{}
				_, err = pkt.ReadFrom(cr)
			}
			if err != nil {
				if errors.Is(err, io.EOF) {
					res.Stop = 0
				} else {
					res.Stop = 1
				}
				return
			}
			f := network.VerifC30GetFields(pkt)
			f.Payload = append([]byte(nil), f.Payload...)
			res.Pkts = append(res.Pkts, f)
			if rewrite {
				// relay path: a received packet is written out again
				var b bytes.Buffer
				pw := network.NewPacketWriter(&b)
				if err := pw.WritePacket(pkt); err != nil {
					panic("re-WritePacket error: " + err.Error())
				}
				res.Wire = append(res.Wire, b.Bytes())
			}
		}
		panic("reader loop did not terminate")
	})
	return
}

func sameRes(a, b readRes) bool {
	if a.Panic != b.Panic || a.Stop != b.Stop || len(a.Pkts) != len(b.Pkts) {
		return false
	}
	for i := range a.Pkts {
		if !sameFields(a.Pkts[i], b.Pkts[i]) {
			return false
		}
	}
	return true
}

// ---------- generators ----------

func randBytes(r *rand.Rand, n int) []byte {
	b := make([]byte, n)
	switch r.Intn(5) {
	case 0: // zeros
	case 1:
		for i := range b {
			b[i] = 0xff
		}
	default:
		r.Read(b)
	}
	return b
}

func pick(r *rand.Rand, xs ...int) int { return xs[r.Intn(len(xs))] }

func randPacket(r *rand.Rand, maxPayload, maxExt int) F {
	f := F{}
	f.Proto = uint16(pick(r, 0, 0x0100, 0x0300, 0x0301, 0xffff, r.Intn(65536), r.Intn(65536)))
	f.Sub = uint16(pick(r, 0, 1, 0x0700, 0xffff, r.Intn(65536), r.Intn(65536)))
	f.Src = randBytes(r, 20)
	f.Dest = byte(pick(r, 0, 0, 1, 2, 0xff, r.Intn(256)))
	f.TTL = byte(pick(r, 0, 0, 1, 2, 0xff, r.Intn(256)))
	n := 0
	if maxPayload > 0 {
		n = pick(r, 0, 1, r.Intn(maxPayload+1), r.Intn(maxPayload+1), maxPayload)
	}
	f.Payload = randBytes(r, n)
	if maxExt > 0 && r.Intn(2) == 0 {
		f.Hint = byte(pick(r, 0, 1, 2, 63, r.Intn(64)))
		f.Ext = randBytes(r, pick(r, 0, 4, 4, 8, r.Intn(maxExt+1)))
	}
	if f.Payload == nil {
		f.Payload = []byte{}
	}
	return f
}

// chunk size plans
func chunking(r *rand.Rand, total int, marks []int) (string, []int) {
	switch r.Intn(7) {
	case 0:
		return "whole", nil
	case 1:
		s := make([]int, total)
		for i := range s {
			s[i] = 1
		}
		return "bytewise", s
	case 2:
		var s []int
		for t := 0; t < total; {
			k := 1 + r.Intn(7)
			s = append(s, k)
			t += k
		}
		return "small", s
	case 3:
		var s []int
		for t := 0; t < total; {
			k := 1 + r.Intn(100)
			s = append(s, k)
			t += k
		}
		return "random", s
	case 4: // with empty reads
		var s []int
		for t := 0; t < total; {
			if r.Intn(4) == 0 {
				s = append(s, 0)
				continue
			}
			k := 1 + r.Intn(40)
			s = append(s, k)
			t += k
		}
		return "empties", s
	default: // cuts inside headers and footers: marks are offsets of interesting boundaries
		cut := map[int]bool{}
		for _, m := range marks {
			for k := 0; k < 2; k++ {
				c := m + r.Intn(9) - 4
				if c > 0 && c < total {
					cut[c] = true
				}
			}
		}
		var s []int
		last := 0
		for c := 1; c < total; c++ {
			if cut[c] {
				s = append(s, c-last)
				last = c
			}
		}
		return "boundary", s
	}
}

// offsets inside a stream of packets where header / payload / footer / ext meet
func marksOf(each [][]byte, fs []F) []int {
	var m []int
	off := 0
	for i, w := range each {
		m = append(m, off+2, off+hdrSize-4, off+hdrSize, off+hdrSize+len(fs[i].Payload), off+hdrSize+len(fs[i].Payload)+8,
			off+hdrSize+len(fs[i].Payload)+ftrSize)
		off += len(w)
	}
	m = append(m, off)
	return m
}

// ---------- case kinds ----------

type encIn struct {
	P pktJ `json:"p"`
}

func caseEnc(f F) (string, string) {
	wire, _, perr := writeAll([]F{f})
	if perr != "" {
		return "", "writing a packet panicked: " + perr
	}
	msg := ""
	res := readAll([][]byte{wire}, "bufio", false, false)
	if res.Panic != "" {
		msg = "reading back panicked: " + res.Panic
	} else if len(res.Pkts) != 1 || res.Stop != 0 || !sameFields(res.Pkts[0], f) {
		msg = fmt.Sprintf("packet %+v written and read back as %+v (stop class %d)", toJ(f), res.Pkts, res.Stop)
	} else if want := hdrSize + len(f.Payload) + ftrSize + len(f.Ext); len(wire) != want {
		msg = fmt.Sprintf("wire length %d, expected %d", len(wire), want)
	}
	return fmt.Sprintf("(CEnc %s %s)", coqPkt(f), hxlib.CoqBytes(wire)), msg
}

type streamIn struct {
	Pkts     []pktJ `json:"pkts"`
	Sizes    []int  `json:"sizes"`
	Truncate int    `json:"truncate"` // -1: none; else keep this many bytes
	Garbage  string `json:"garbage,omitempty"`
	EOFData  bool   `json:"eof_with_data,omitempty"`
}

// a valid stream (optionally truncated / followed by garbage) through both reading paths
func caseStream(in streamIn) (coq string, msg string, nontrivial bool) {
	fs := make([]F, len(in.Pkts))
	for i, j := range in.Pkts {
		fs[i] = fromJ(j)
	}
	wire, each, perr := writeAll(fs)
	if perr != "" {
		return "", "writing packets panicked: " + perr, true
	}
	data := append([]byte(nil), wire...)
	if in.Truncate >= 0 && in.Truncate < len(data) {
		data = data[:in.Truncate]
	}
	g, _ := hex.DecodeString(in.Garbage)
	data = append(data, g...)
	chunks := split(data, in.Sizes)
	a := readAll(chunks, "bufio", in.EOFData, true)
	b := readAll(chunks, "direct", false, false)
	if a.Panic != "" {
		msg = "PacketReader.ReadPacket panicked: " + a.Panic
	} else if b.Panic != "" {
		msg = "Packet.ReadFrom panicked: " + b.Panic
	} else if !sameRes(a, b) {
		msg = fmt.Sprintf("the buffered reader returned %d packets (stop %d), ReadFrom on the same chunks %d (stop %d)", len(a.Pkts), a.Stop, len(b.Pkts), b.Stop)
	}
	// which packets are complete in data?
	complete := 0
	off := 0
	for _, w := range each {
		if off+len(w) <= len(data) && (in.Truncate < 0 || off+len(w) <= in.Truncate) {
			complete++
			off += len(w)
		} else {
			break
		}
	}
	if msg == "" {
		if len(a.Pkts) < complete {
			msg = fmt.Sprintf("%d complete packets in the stream, only %d read (chunking %v)", complete, len(a.Pkts), in.Sizes)
		}
		for i := 0; i < complete && i < len(a.Pkts) && msg == ""; i++ {
			if !sameFields(a.Pkts[i], fs[i]) {
				msg = fmt.Sprintf("packet %d written as %+v read back as %+v", i, toJ(fs[i]), toJ(a.Pkts[i]))
			} else if !bytes.Equal(a.Wire[i], each[i]) {
				msg = fmt.Sprintf("packet %d re-written after reading differs from the bytes received", i)
			}
		}
		if msg == "" && in.Truncate < 0 && len(g) == 0 && (len(a.Pkts) != len(fs) || a.Stop != 0) {
			msg = fmt.Sprintf("valid stream of %d packets: %d read, stop class %d", len(fs), len(a.Pkts), a.Stop)
		}
	}
	coq = fmt.Sprintf("(CStream %s %s %d)", coqChunks(chunks), coqPkts(a.Pkts), a.Stop)
	return coq, msg, len(fs) > 0 || len(g) > 0
}

type corruptIn struct {
	P     pktJ     `json:"p"`
	Tail  *pktJ    `json:"tail,omitempty"`
	Pairs [][2]int `json:"pairs"` // (index, new byte)
}

func region(f F, i int) string {
	l := len(f.Payload)
	switch {
	case i < 26:
		return "header"
	case i < 30:
		return "length"
	case i < 30+l:
		return "payload"
	case i < 30+l+8:
		return "hash"
	case i < 30+l+10:
		return "extinfo"
	default:
		return "ext"
	}
}

func caseCorrupt(in corruptIn, tally map[string]int) (coq string, msg string) {
	f := fromJ(in.P)
	wire, _, perr := writeAll([]F{f})
	if perr != "" {
		return "", "writing a packet panicked: " + perr
	}
	var tail []byte
	if in.Tail != nil {
		tail, _, perr = writeAll([]F{fromJ(*in.Tail)})
		if perr != "" {
			return "", "writing a packet panicked: " + perr
		}
	}
	var obs []string
	for _, pr := range in.Pairs {
		i, nb := pr[0], byte(pr[1])
		if i >= len(wire) || wire[i] == nb {
			continue
		}
		data := append(append([]byte(nil), wire...), tail...)
		data[i] = nb
		res := readAll([][]byte{data}, "bufio", false, false)
		reg := region(f, i)
		if res.Panic != "" {
			if msg == "" {
				msg = fmt.Sprintf("reader panicked on a packet with byte %d (%s) changed: %s", i, reg, res.Panic)
			}
			continue
		}
		switch reg {
		case "header", "payload", "hash":
			if (len(res.Pkts) != 0 || res.Stop != 1) && msg == "" {
				msg = fmt.Sprintf("byte %d (%s) of a packet changed from %#x to %#x: reader returned %d packet(s), stop class %d — corruption not rejected",
					i, reg, wire[i], nb, len(res.Pkts), res.Stop)
			}
		default:
			k := "bad"
			if len(res.Pkts) > 0 {
				k = "accepted"
			} else if res.Stop == 0 {
				k = "eof"
			}
			if tally != nil {
				tally[reg+":"+k]++
			}
		}
		obs = append(obs, fmt.Sprintf("(%d, %d, %s, %d)", i, nb, coqPkts(res.Pkts), res.Stop))
	}
	coq = fmt.Sprintf("(CCorrupt %s %s %s)", hxlib.CoqBytes(wire), hxlib.CoqBytes(tail), hxlib.CoqList(obs))
	return coq, msg
}

type bigIn struct {
	P     pktJ  `json:"p"` // Pat/N describe the payload
	Sizes []int `json:"sizes"`
	Mode  string `json:"mode"`
	Next  *pktJ `json:"next,omitempty"`
}

func caseBig(in bigIn, wantCoq bool) (coq string, msg string) {
	f := fromJ(in.P)
	fs := []F{f}
	if in.Next != nil {
		fs = append(fs, fromJ(*in.Next))
	}
	wire, each, perr := writeAll(fs)
	if perr != "" {
		return "", "writing a large packet panicked: " + perr
	}
	want := f
	if len(want.Payload) > payMax { // NewPacket truncates
		want.Payload = want.Payload[:payMax]
	}
	chunks := split(wire, in.Sizes)
	res := readAll(chunks, in.Mode, false, false)
	if res.Panic != "" {
		msg = "reading a large packet panicked: " + res.Panic
	} else if len(res.Pkts) != len(fs) || res.Stop != 0 {
		msg = fmt.Sprintf("large packet (payload %d): %d of %d packets read back, stop class %d, mode %s", len(f.Payload), len(res.Pkts), len(fs), res.Stop, in.Mode)
	} else if !sameFields(res.Pkts[0], want) {
		msg = fmt.Sprintf("large packet (payload %d) read back with different fields/payload (len %d), mode %s", len(f.Payload), len(res.Pkts[0].Payload), in.Mode)
	} else if in.Next != nil && !sameFields(res.Pkts[1], fs[1]) {
		msg = "the packet following a large packet was read back differently"
	}
	if !wantCoq || len(f.Payload) > payMax {
		return "", msg
	}
	w0 := each[0]
	hdr, ftr := w0[:hdrSize], w0[hdrSize+len(want.Payload):hdrSize+len(want.Payload)+ftrSize]
	back := "None"
	same := false
	if len(res.Pkts) > 0 {
		b := res.Pkts[0]
		same = bytes.Equal(b.Payload, want.Payload)
		b.Payload = nil
		back = "(Some " + coqPkt(b) + ")"
	}
	p0 := f
	p0.Payload = nil
	pat, _ := hex.DecodeString(in.P.Pat)
	coq = fmt.Sprintf("(CBig %s %s %d %s %s %d %s %s)", coqPkt(p0), hxlib.CoqBytes(pat), in.P.N, hxlib.CoqBytes(hdr), hxlib.CoqBytes(ftr),
		len(w0), back, hxlib.CoqBool(same))
	return coq, msg
}

// relay path with an extension near the 10-bit limit: a packet with Ext0 bytes of extension is
// received, the relay appends Add more bytes (sendToFriends), writes it, and further packets follow
type relayIn struct {
	P    pktJ   `json:"p"`   // ext = the extension as received
	Add  string `json:"add"` // ids appended by the relay
	Next []pktJ `json:"next"`
}

func caseRelay(in relayIn) (coqs []string, msg string) {
	f := fromJ(in.P)
	add, _ := hex.DecodeString(in.Add)
	var next []F
	for _, j := range in.Next {
		next = append(next, fromJ(j))
	}
	var wire, relayedWire []byte
	var announced int
	perr := hxlib.Catch(func() {
		// hop 1: the packet arrives
		w1, _, e := writeAll([]F{f})
		if e != "" {
			panic(e)
		}
		pr := network.NewPacketReader(bytes.NewReader(w1))
		pkt, err := pr.ReadPacket()
		if err != nil {
			panic("the packet with a " + fmt.Sprint(len(f.Ext)) + "-byte extension is not read back: " + err.Error())
		}
		// hop 2: relay
		network.VerifC30RelayAppend(pkt, add)
		announced = network.VerifC30AnnouncedExtLen(pkt)
		var buf bytes.Buffer
		pw := network.NewPacketWriter(&buf)
		if err := pw.WritePacket(pkt); err != nil {
			panic("WritePacket error: " + err.Error())
		}
		relayedWire = append([]byte(nil), buf.Bytes()...)
		for _, nf := range next {
			if err := pw.WritePacket(network.VerifC30NewPacket(nf)); err != nil {
				panic("WritePacket error: " + err.Error())
			}
		}
		wire = buf.Bytes()
	})
	if perr != "" {
		return nil, "relaying a packet with a large extension panicked/failed: " + perr
	}
	res := readAll([][]byte{wire}, "bufio", false, false)
	full := append(append([]byte(nil), f.Ext...), add...)
	if want := hdrSize + len(f.Payload) + ftrSize + announced; len(relayedWire) != want {
		msg = fmt.Sprintf("relayed packet: the footer announces an extension of %d bytes (accumulated %d) but %d bytes were written after the footer",
			announced, len(full), len(relayedWire)-hdrSize-len(f.Payload)-ftrSize)
	}
	if msg == "" && res.Panic != "" {
		msg = "reading the relayed stream panicked: " + res.Panic
	}
	if msg == "" && (len(res.Pkts) != 1+len(next) || res.Stop != 0) {
		msg = fmt.Sprintf("stream of a relayed packet (extension %d+%d bytes) and %d more packets: %d packets read back, stop class %d",
			len(f.Ext), len(add), len(next), len(res.Pkts), res.Stop)
	}
	for i := 0; msg == "" && i < len(next); i++ {
		if !sameFields(res.Pkts[1+i], next[i]) {
			msg = fmt.Sprintf("packet %d after the relayed packet was read back differently", i)
		}
	}
	if msg == "" {
		g := res.Pkts[0]
		if g.Proto != f.Proto || g.Sub != f.Sub || !bytes.Equal(g.Src, f.Src) || g.Dest != f.Dest || g.TTL != f.TTL || !bytes.Equal(g.Payload, f.Payload) ||
			len(g.Ext) != announced || !bytes.Equal(g.Ext, full[:announced]) {
			msg = "the relayed packet was read back with other fields / extension than the announced prefix of the accumulated extension"
		}
	}
	// model: the relayed packet has the whole accumulated extension and hint+1; encode writes ext[:len mod 1024]
	m := f
	m.Ext = full
	m.Hint = f.Hint + 1
	coqs = append(coqs, fmt.Sprintf("(CEnc (P %d %d %s %d %d %s %d %s) %s)", m.Proto, m.Sub, hxlib.CoqBytes(m.Src), m.Dest, m.TTL,
		hxlib.CoqBytes(m.Payload), int(f.Hint)+1, hxlib.CoqBytes(m.Ext), hxlib.CoqBytes(relayedWire)))
	coqs = append(coqs, fmt.Sprintf("(CStream %s %s %d)", coqChunks([][]byte{wire}), coqPkts(res.Pkts), res.Stop))
	return coqs, msg
}

// ---------- gen ----------

func gen(c *hxlib.Ctx) {
	r := c.Rand
	// 1. single packets: wire bytes
	for i := 0; i < c.N(140); i++ {
		maxP, maxE := 64, 12
		if i%40 == 0 {
			maxE = 1023
		}
		f := randPacket(r, maxP, maxE)
		if i == 1 {
			f.Ext = randBytes(r, 1023)
			f.Hint = 63
		}
		coq, msg := caseEnc(f)
		c.Emit(hxlib.Case{Kind: "enc", Coq: coq, Input: map[string]interface{}{"t": "enc", "v": encIn{toJ(f)}}, Nontrivial: true, OracleErr: msg})
	}
	// 2. streams through adversarial chunk readers
	for i := 0; i < c.N(120); i++ {
		n := 1 + r.Intn(4)
		if i%25 == 0 {
			n = 0
		}
		var js []pktJ
		var fs []F
		for k := 0; k < n; k++ {
			f := randPacket(r, 24, 8)
			fs = append(fs, f)
			js = append(js, toJ(f))
		}
		wire, each, _ := writeAll(fs)
		in := streamIn{Pkts: js, Truncate: -1}
		kind := "stream"
		switch r.Intn(8) {
		case 0:
			if len(wire) > 0 {
				in.Truncate = r.Intn(len(wire))
				kind = "stream-truncated"
			}
		case 1:
			g := randBytes(r, pick(r, 1, 29, 30, 39, 40, 41, 60))
			if r.Intn(2) == 0 && len(g) >= 30 { // a header announcing a payload at / just above the limit
				g[26], g[27], g[28], g[29] = 0x00, 0x10, 0x00, byte(r.Intn(2))
			}
			in.Garbage = hex.EncodeToString(g)
			kind = "stream-garbage"
		case 2:
			in.EOFData = true
			kind = "stream-eof-with-data"
		}
		total := len(wire)
		name, sizes := chunking(r, total+len(in.Garbage)/2, marksOf(each, fs))
		in.Sizes = sizes
		coq, msg, nt := caseStream(in)
		c.Emit(hxlib.Case{Kind: kind + "/" + name, Coq: coq, Input: map[string]interface{}{"t": "stream", "v": in}, Nontrivial: nt, OracleErr: msg})
	}
	// 3. every single-byte corruption of small packets
	tally := map[string]int{}
	for i := 0; i < c.N(10); i++ {
		var f F
		switch i % 5 {
		case 0:
			f = randPacket(r, 0, 0) // empty payload, no extension
			f.Payload = []byte{}
		case 1:
			f = randPacket(r, 12, 6)
			f.Ext = randBytes(r, 5)
			f.Hint = 1
		default:
			f = randPacket(r, 20, 6)
		}
		in := corruptIn{P: toJ(f)}
		if i%2 == 1 {
			t := toJ(randPacket(r, 6, 0))
			in.Tail = &t
		}
		wl := hdrSize + len(f.Payload) + ftrSize + len(f.Ext)
		for p := 0; p < wl; p++ {
			in.Pairs = append(in.Pairs, [2]int{p, -1}, [2]int{p, -2})
		}
		// resolve the new byte values against the real wire bytes: flip one bit / random other value
		wire, _, _ := writeAll([]F{f})
		for k := range in.Pairs {
			p := in.Pairs[k][0]
			if p >= len(wire) {
				continue
			}
			if in.Pairs[k][1] == -1 {
				in.Pairs[k][1] = int(wire[p] ^ (1 << uint(r.Intn(8))))
			} else {
				in.Pairs[k][1] = int(wire[p] + byte(1+r.Intn(255)))
			}
		}
		coq, msg := caseCorrupt(in, tally)
		c.Emit(hxlib.Case{Kind: "corrupt-all-bytes", Coq: coq, Input: map[string]interface{}{"t": "corrupt", "v": in}, Nontrivial: true, OracleErr: msg,
			Key: coq})
	}
	c.Note("single-byte changes outside the hash-protected framing (length field, extendInfo, extension), outcome counts: %v", tally)
	// 4. large payloads (described by a repeated pattern)
	// the model is evaluated on the sizes up to 64 KiB in the quick tier and on all of them in
	// the thorough tier; the direct oracle (read back == written) runs on all sizes in both
	sizes := []int{4095, 4096, 4097, 8191, 8192, 65536, 65537, 1048575, 1048576, 1048577}
	for _, n := range sizes {
		for rep := 0; rep < 3; rep++ {
			pat := randBytes(r, 3+r.Intn(11))
			if rep == 0 {
				r.Read(pat)
			}
			f := randPacket(r, 0, 6)
			j := toJ(f)
			j.Payload = ""
			j.Pat = hex.EncodeToString(pat)
			j.N = n
			in := bigIn{P: j, Mode: []string{"bufio", "direct", "bufio"}[rep]}
			total := hdrSize + n + ftrSize + len(f.Ext)
			switch rep {
			case 0: // byte at a time
				if n <= 65537 {
					in.Sizes = make([]int, total)
					for i := range in.Sizes {
						in.Sizes[i] = 1
					}
				} else {
					in.Sizes = []int{1, 29, 4095, 1, 4096, 4097}
				}
			case 1: // cuts around the buffer size and inside header/footer
				in.Sizes = []int{29, 1, 4095, 1, 1, 4096, n / 2}
			default:
				for t := 0; t < total; {
					k := 1 + r.Intn(9000)
					in.Sizes = append(in.Sizes, k)
					t += k
				}
				nx := toJ(randPacket(r, 10, 0))
				in.Next = &nx
			}
			wantCoq := rep == 0 && !c.OracleOnly && (n <= 65536 || c.Tier == "thorough")
			coq, msg := caseBig(in, wantCoq)
			c.Emit(hxlib.Case{Kind: fmt.Sprintf("big-%d", n), Coq: coq, Input: map[string]interface{}{"t": "big", "v": in}, Nontrivial: true, OracleErr: msg,
				Key: fmt.Sprintf("%d/%d/%s", n, rep, j.Pat)})
		}
	}
	// 5. relay hops that push the accumulated extension to / over the 10-bit length field
	for i := 0; i < c.N(6); i++ {
		f := randPacket(r, 8, 0)
		n0 := []int{1012, 1016, 1020, 1020, 1023, 1000 + r.Intn(24)}[i%6]
		f.Ext = randBytes(r, n0)
		f.Hint = byte([]int{0, 1, 62, 63}[r.Intn(4)])
		add := make([]byte, 4*(1+r.Intn(3)))
		r.Read(add)
		in := relayIn{P: toJ(f), Add: hex.EncodeToString(add)}
		for k := 0; k < 1+r.Intn(3); k++ {
			in.Next = append(in.Next, toJ(randPacket(r, 10, 4)))
		}
		coqs, msg := caseRelay(in)
		for k, cq := range coqs {
			m := ""
			if k == 0 {
				m = msg
			}
			c.Emit(hxlib.Case{Kind: "relay-ext-limit", Coq: cq, Input: map[string]interface{}{"t": "relayext", "v": in}, Nontrivial: true, OracleErr: m})
		}
		if len(coqs) == 0 {
			c.Emit(hxlib.Case{Kind: "relay-ext-limit", Input: map[string]interface{}{"t": "relayext", "v": in}, Nontrivial: true, OracleErr: msg,
				Key: fmt.Sprint("relayext", i)})
		}
	}
	// canaries: wrong observations the model must flag
	c.Emit(hxlib.Case{Kind: "canary", Canary: true, Coq: "(CStream [[1;2;3]] [] 1)"})
	f := randPacket(rand.New(rand.NewSource(7)), 5, 0)
	wire, _, _ := writeAll([]F{f})
	wire[len(wire)-3] ^= 1 // a wrong stored hash byte claimed as the written form
	c.Emit(hxlib.Case{Kind: "canary", Canary: true, Coq: fmt.Sprintf("(CEnc %s %s)", coqPkt(f), hxlib.CoqBytes(wire))})
}

func replay(raw json.RawMessage) string {
	var in struct {
		T string          `json:"t"`
		V json.RawMessage `json:"v"`
	}
	if err := json.Unmarshal(raw, &in); err != nil {
		return "bad replay input: " + err.Error()
	}
	switch in.T {
	case "enc":
		var v encIn
		json.Unmarshal(in.V, &v)
		_, msg := caseEnc(fromJ(v.P))
		return msg
	case "stream":
		var v streamIn
		json.Unmarshal(in.V, &v)
		_, msg, _ := caseStream(v)
		return msg
	case "corrupt":
		var v corruptIn
		json.Unmarshal(in.V, &v)
		_, msg := caseCorrupt(v, nil)
		return msg
	case "relayext":
		var v relayIn
		json.Unmarshal(in.V, &v)
		_, msg := caseRelay(v)
		return msg
	case "big":
		var v bigIn
		json.Unmarshal(in.V, &v)
		_, msg := caseBig(v, false)
		return msg
	}
	return "unknown case type " + in.T
}

func main() {
	_ = strings.TrimSpace
	hxlib.Main(hxlib.Spec{
		ID: "C30",
		Rule: "packets with random/boundary header fields (protocol, sub-protocol, 20-byte src, dest, ttl, extension hint and bytes) written with PacketWriter and read with PacketReader (buffered) and Packet.ReadFrom (unbuffered) over chunk readers: whole, 1 byte at a time, small/random chunks, empty reads, cuts inside headers and footers, data+EOF; streams of 0-4 packets, truncated streams, trailing garbage, over-limit length; received packets with a 1000-1023 byte extension to which a relay hop appends 1-3 ids (sendToFriends) followed by more packets on the same stream; every single-byte change of small packets (two new values per position); payload sizes 4095..65536 (1 MiB in the thorough tier) described by a repeated pattern; non-trivial = every case that contains at least one packet or malformed bytes; distinct = distinct Coq case term",
		Shard: 100,
		Gen:   gen, Replay: replay,
	})
}
