// Package sample exercises every construct of the go2coq subset (unit tests).
package sample

import (
	"math/bits"

	"example.com/ext"
	"example.com/ext/errs"
)

type level int

const (
	lvlLow level = iota
	lvlMid
	lvlHigh
	lvlTop
)

const (
	mask     = 0x0F
	limit    = int64(1) << 40
	typedU16 = uint16(7)
)

type inner struct {
	th  int64
	cnt uint32
}

type box struct {
	n     int
	in    *inner
	items []int
	m     map[string]int64
	peer  ext.Peer
	ok    bool
}

type flag uint8

func ifElse(a, b int64) bool {
	if a == 0 || b == 0 {
		return true
	} else if a < b {
		return false
	}
	return a >= limit
}

func taggedSwitch(from level, to level) bool {
	switch to {
	case lvlLow, lvlTop:
		return from == lvlLow
	case lvlMid:
		return true
	default:
		return from < to
	}
}

func taglessSwitch(x int32) int32 {
	switch {
	case x < 0:
		return -x
	case x > 100:
		return 100
	}
	return x
}

func lets(x int32, y uint8) int32 {
	a := x + 1
	a = a * 2
	a -= 3
	a++
	var z int32
	var w = int32(y) / 2
	z = a % 7
	return z + w
}

func bitops(x uint16, s uint8, i int64) uint16 {
	a := x << 3
	b := a >> s
	c := b&mask | x ^ 0x100
	d := c &^ typedU16
	e := ^d
	j := -i
	return e + uint16(j)
}

func convs(a int32, b uint64, c int) int64 {
	x := int64(a)
	y := int64(b)
	z := uint8(c)
	return x + y + int64(z)
}

func shadow(x int, c bool) int {
	y := 1
	if c {
		y := x + 2
		x = y
	}
	return x + y
}

func loopCond(n uint64) bool {
	for n > 0xf {
		if n&0xf != 0 {
			return false
		}
		n = n >> 4
	}
	return n == 1
}

func loop3(b int) int {
	var cnt = int(1)
	for b >>= 8; b > 0; cnt++ {
		b >>= 8
	}
	return cnt
}

func loopBreakContinue(n int) int {
	s := 0
	for i := 0; i < n; i++ {
		if i == 3 {
			continue
		}
		if i > 10 {
			break
		}
		s += i
	}
	return s
}

func (b *box) atoms(k int64) bool {
	if len(b.items) == 0 {
		return b.ok
	}
	return b.in.th+k > int64(b.n) && b.peer.Rank() > 2 && b.m["a"] != 0 && b.peer.Alive()
}

func (f flag) has(o flag) bool {
	return f&o == o
}

func check(min, max int64, t ext.Tx) error {
	ts := t.Stamp()
	if ts <= min {
		return errs.Expired.Errorf("expired %d", min-ts)
	} else if ts > max {
		return ext.NewFuture("future")
	}
	return nil
}

func split(v uint64) (hi uint32, lo uint16) {
	hi = uint32(v >> 16)
	lo = uint16(v)
	return
}

func pair(a, b int8) (int8, bool) {
	return a + b, a > b
}

func intrinsics(n int64, k int64) int {
	if n == 0 {
		return 0
	}
	return (bits.Len64(uint64(n)-1)+3)/4 + bits.TrailingZeros64(^uint64(k^(k-1)))
}

func (b *box) big(p *ext.Packet, q ext.Peer, ts int64) (bool, error) {
	b.n++
	if ts >= b.in.th+int64(b.in.cnt) {
		return false, nil
	}
	isSrc := q.ID().Equal(p.Src)
	oneHop := p.TTL != 0 || p.Dest == ext.DestPeer
	if oneHop && !isSrc {
		return false, nil
	}
	if l := b.m[p.Key].max; l != 0 && l < ts {
		return false, nil
	}
	if b.in == nil && !q.HasRole(lvlTop) {
		return true, nil
	}
	r := &inner{
		th:  ts - limit,
		cnt: uint32(len(b.items)) + 1,
	}
	if valid := len(b.items); valid <= 2*b.n/3 {
		return false, errs.New("few")
	}
	return r.th > 2*ts/3, nil
}

func nestedLoops(n int, m int) int {
	s := 0
	for i := 0; i < n; i++ {
		for j := i; j < m; j++ {
			if j == 7 {
				return -1
			}
			s += j
		}
	}
	return s
}

func twoLoops(a uint32) uint32 {
	c := uint32(0)
	for a > 0 {
		a >>= 1
		c++
	}
	for c%4 != 0 {
		c++
	}
	return c
}

// ---- outside the subset

func usesFloat(x float64) bool { return x > 0 }

func usesRange(xs []int) int {
	s := 0
	for _, x := range xs {
		s += x
	}
	return s
}

func callsOther(a int64) bool { return ifElse(a, a) }

func atomOnLocal(xs []int, i int) int {
	i = i + 1
	return xs[i]
}

func sideEffect(b *box) int {
	b.n = 3
	return b.n
}

func noReturnPath(a int) int {
	switch {
	case a > 0:
		return 1
	}
	panic("x")
}

func methodWithArg(q ext.Peer, n int) bool {
	return q.HasRank(n)
}

func goStmt(a int) int {
	go func() {}()
	return a
}
