package main

import (
	"encoding/json"
	"flag"
	"fmt"
	"os"
	"os/exec"
	"path/filepath"
	"strings"
	"testing"
)

var update = flag.Bool("update", false, "rewrite testdata/golden.txt from the current translator output (review the diff!)")

// every construct of the subset, translated from testdata/src/sample/sample.go
var okSelectors = []string{
	"ifElse", "taggedSwitch", "taglessSwitch", "lets", "bitops", "convs", "shadow",
	"loopCond", "loop3", "loopBreakContinue", "nestedLoops", "twoLoops",
	"(*box).atoms", "flag.has", "check", "split", "pair", "intrinsics",
	"(*box).big:if#2", "(*box).big:oneHop", "(*box).big:if@oneHop", "(*box).big:if@max",
	"(*box).big:if@HasRole", "(*box).big:field#th", "(*box).big:field#cnt",
	"(*box).big:if@valid", "(*box).big:return#6",
}

// selectors that must fail, with a fragment of the reason
var failSelectors = map[string]string{
	"(*box).big:isSrc": "non-constant argument",
	"(*box).big:if#9":  "fragment if#9 not found",
	"(*box).big:nope":  "fragment nope not found",
	"(*box).big:what?": "unknown fragment selector",
	"gone":             "function gone not found",
	"(*box).gone":      "not found",
	"usesFloat":        "non-scalar",
	"usesRange":        "RangeStmt",
	"callsOther":       "call of ifElse is outside the subset",
	"atomOnLocal":      "depends on scalar variable i",
	"sideEffect":       "assignment to b.n",
	"noReturnPath":     "ExprStmt",
	"methodWithArg":    "non-constant argument",
	"goStmt":           "GoStmt",
}

func body(code string) string {
	i := strings.Index(code, "Definition k_params")
	if i < 0 {
		return code
	}
	return strings.TrimRight(code[i:], "\n") + "\n"
}

func translateSample(t *testing.T, sel string) (string, error) {
	t.Helper()
	p := loadPackage("testdata/src", "sample")
	if p.err != nil {
		t.Fatal(p.err)
	}
	return translateKernel(p, kernelSpec{Dir: "sample", Sel: sel, Name: "k"})
}

func TestGolden(t *testing.T) {
	var b strings.Builder
	for _, sel := range okSelectors {
		code, err := translateSample(t, sel)
		if err != nil {
			t.Errorf("%s: unexpected failure: %v", sel, err)
			continue
		}
		fmt.Fprintf(&b, "=== %s\n%s", sel, body(code))
	}
	got := b.String()
	const path = "testdata/golden.txt"
	if *update {
		if err := os.WriteFile(path, []byte(got), 0o644); err != nil {
			t.Fatal(err)
		}
		return
	}
	want, err := os.ReadFile(path)
	if err != nil {
		t.Fatal(err)
	}
	if got != string(want) {
		gl, wl := strings.Split(got, "\n"), strings.Split(string(want), "\n")
		for i := 0; i < len(gl) && i < len(wl); i++ {
			if gl[i] != wl[i] {
				t.Fatalf("golden mismatch at line %d:\n got: %s\nwant: %s", i+1, gl[i], wl[i])
			}
		}
		t.Fatalf("golden mismatch: %d lines vs %d lines", len(gl), len(wl))
	}
}

func TestFailures(t *testing.T) {
	for sel, frag := range failSelectors {
		_, err := translateSample(t, sel)
		if err == nil {
			t.Errorf("%s: translated, expected failure containing %q", sel, frag)
		} else if !strings.Contains(err.Error(), frag) {
			t.Errorf("%s: error %q does not contain %q", sel, err, frag)
		}
	}
}

// the semantic commitments, spelled out construct by construct
func TestConstructs(t *testing.T) {
	cases := []struct {
		sel  string
		want []string
	}{
		// constants (typed, shifted, iota) are resolved to literals
		{"ifElse", []string{"(a >=? 1099511627776)", "if ((a =? 0) || (b =? 0)) then"}},
		{"taggedSwitch", []string{"if ((to =? 0) || (to =? 3)) then", "if (to =? 1) then", "(from <? to)"}},
		// every + - * / node is wrapped at its own type; / is Z.quot, % is Z.rem
		{"lets", []string{"let a := (wrap_i32 (x + 1)) in", "let a := (wrap_i32 (a * 2)) in", "let a := (wrap_i32 (a - 3)) in",
			"let z := 0 in", "(wrap_i32 (Z.quot y 2))", "(Z.rem a 7)"}},
		// shifts and masks; unary - and ^ are wrapped
		{"bitops", []string{"(wrap_u16 (Z.shiftl x 3))", "(Z.shiftr a s)", "(Z.lxor (Z.lor (Z.land b 15) x) 256)", "(Z.ldiff c 7)",
			"(wrap_u16 (Z.lnot d))", "(wrap_i64 (- i))"}},
		// widening conversions are the identity, narrowing ones wrap
		{"convs", []string{"let x := a in", "let y := (wrap_i64 b) in", "let z := (wrap_u8 c) in"}},
		// an inner := gets its own name; assignment to the outer variable shadows the outer name
		{"shadow", []string{"let y_1 := (wrap_int (x + 2)) in", "let x := y_1 in"}},
		// loops: fuelled Fixpoint, out of fuel = None, early return = inl, normal exit = inr state
		{"loopCond", []string{"Fixpoint k_loop1 (fuel : nat) (n : Z) {struct fuel} : option (bool + Z) :=", "| O => None",
			"Some (inl false)", "k_loop1 fuel' n", "Some (inr n)", "Definition k (fuel : nat) (n : Z) : option bool :="}},
		{"loop3", []string{"option (Z * Z)", "let cnt := (wrap_int (cnt + 1)) in", "| Some (b, cnt) =>"}},
		// abstraction: declared scalar parameters first, then atoms in order of first appearance
		{"(*box).atoms", []string{`["k"; "len(b.items)"; "b.ok"; "b.in.th"; "b.n"; "b.peer.Rank()"; "b.m[""a""]"; "b.peer.Alive()"]`,
			`["i64"; "int"; "bool"; "i64"; "int"; "Z?"; "i64"; "bool?"]`}},
		// a value receiver of named integer type is an ordinary parameter
		{"flag.has", []string{"Definition k (f : Z) (o : Z) : bool :=", "((Z.land f o) =? o)"}},
		// error results
		{"check", []string{`(EErr "errs.Expired")`, `(EErr "ext.NewFuture")`, "ENil", ": gerr :="}},
		// named results, bare return, tuples
		{"split", []string{"let hi := 0 in", ": (Z * Z) :=", "(hi, lo)"}},
		{"pair", []string{": (Z * bool) :=", "((wrap_i8 (a + b)), (a >? b))"}},
		{"intrinsics", []string{"(bits_len64 (wrap_u64 ((wrap_u64 n) - 1)))", "(bits_tz64 (wrap_u64 (Z.lnot (wrap_u64 (Z.lxor k_1 (wrap_i64 (k_1 - 1)))))))"}},
		// fragments: free variables and atoms in order of first appearance
		{"(*box).big:oneHop", []string{`["p.TTL"; "p.Dest"; "ext.DestPeer"]`}},
		{"(*box).big:if@max", []string{`["b.m[p.Key].max"; "ts"]`, "let l := b_m_p_Key_max in"}},
		{"(*box).big:if@HasRole", []string{`["b.in == nil"; "q.HasRole(lvlTop)"]`, "(b_in_nil && (negb q_HasRole_lvlTop))"}},
		{"(*box).big:if@valid", []string{"(valid <=? (wrap_int (Z.quot (wrap_int (2 * b_n)) 3)))"}},
		{"(*box).big:field#th", []string{"(wrap_i64 (ts - 1099511627776))"}},
	}
	for _, c := range cases {
		code, err := translateSample(t, c.sel)
		if err != nil {
			t.Errorf("%s: %v", c.sel, err)
			continue
		}
		for _, w := range c.want {
			if !strings.Contains(code, w) {
				t.Errorf("%s: output lacks %q:\n%s", c.sel, w, body(code))
			}
		}
		if !strings.HasPrefix(code, "(* GENERATED") || !strings.Contains(code, "From Goloop Require Import lib.GoInt.") {
			t.Errorf("%s: header missing", c.sel)
		}
		// no nested comment openers / string quotes inside the header comment
		hdr := code[2:strings.Index(code, "*)\n")]
		if strings.Contains(hdr, "(*") || strings.Contains(hdr, `"`) {
			t.Errorf("%s: header comment is not comment-safe", c.sel)
		}
	}
}

func TestParseKernelList(t *testing.T) {
	ks, err := parseKernelList("# c\n\nconsensus (*voteSet).hasOverTwoThirds -> h   # trailing\ncommon/txlocator (*tracker).Has:if#1 -> g\n")
	if err != nil || len(ks) != 2 {
		t.Fatalf("got %v %v", ks, err)
	}
	if ks[1].Sel != "(*tracker).Has:if#1" || ks[1].Name != "g" || ks[0].Dir != "consensus" {
		t.Fatalf("bad parse: %+v", ks)
	}
	for _, bad := range []string{"a b c", "a b -> if", "a b -> x\na c -> x", "a b -> 1x"} {
		if _, err := parseKernelList(bad); err == nil {
			t.Errorf("%q: expected a parse error", bad)
		}
	}
}

// end to end: the command-line contract of bin/vlib.py regen_kernels
func TestCLI(t *testing.T) {
	tmp := t.TempDir()
	bin := filepath.Join(tmp, "go2coq")
	if out, err := exec.Command("go", "build", "-o", bin, ".").CombinedOutput(); err != nil {
		t.Fatalf("build: %v\n%s", err, out)
	}
	list := filepath.Join(tmp, "kernels.list")
	os.WriteFile(list, []byte("sample ifElse -> good\nsample gone -> bad\nnodir f -> worse\n"), 0o644)
	outDir := filepath.Join(tmp, "out")
	cmd := exec.Command(bin, "-repo", "testdata/src", "-kernels", list, "-out", outDir)
	out, err := cmd.CombinedOutput()
	if ee, ok := err.(*exec.ExitError); !ok || ee.ExitCode() != 1 {
		t.Fatalf("want exit code 1, got %v\n%s", err, out)
	}
	if _, err := os.Stat(filepath.Join(outDir, "K_good.v")); err != nil {
		t.Error("K_good.v missing")
	}
	if _, err := os.Stat(filepath.Join(outDir, "K_bad.v")); err == nil {
		t.Error("K_bad.v must not exist")
	}
	var errs map[string]string
	js, _ := os.ReadFile(filepath.Join(outDir, "errors.json"))
	if json.Unmarshal(js, &errs) != nil || len(errs) != 2 || errs["bad"] == "" || errs["worse"] == "" {
		t.Errorf("errors.json = %s", js)
	}
	os.WriteFile(list, []byte("sample ifElse -> good\n"), 0o644)
	if out, err := exec.Command(bin, "-repo", "testdata/src", "-kernels", list, "-out", outDir).CombinedOutput(); err != nil {
		t.Fatalf("want exit code 0: %v\n%s", err, out)
	}
	js, _ = os.ReadFile(filepath.Join(outDir, "errors.json"))
	if strings.TrimSpace(string(js)) != "{}" {
		t.Errorf("errors.json = %s", js)
	}
}

// every file generated from the sample must be accepted by coqc (skipped when
// coqc or the compiled lib/GoInt.vo is not available)
func TestCoqCompiles(t *testing.T) {
	coqc, err := exec.LookPath("coqc")
	if err != nil {
		t.Skip("coqc not in PATH")
	}
	theories, _ := filepath.Abs("../../coq/theories")
	if _, err := os.Stat(filepath.Join(theories, "lib", "GoInt.vo")); err != nil {
		t.Skip("lib/GoInt.vo not built")
	}
	// one coqc run: each kernel in its own Module, the common preamble once
	const preamble = "From Goloop Require Import lib.GoInt.\nFrom Coq Require Import ZArith Bool String List.\nImport ListNotations.\nLocal Open Scope Z_scope.\nLocal Open Scope bool_scope.\n"
	var all strings.Builder
	all.WriteString(preamble)
	p := loadPackage("testdata/src", "sample")
	for i, sel := range okSelectors {
		name := fmt.Sprintf("t%d", i)
		code, err := translateKernel(p, kernelSpec{Dir: "sample", Sel: sel, Name: name})
		if err != nil {
			t.Errorf("%s: %v", sel, err)
			continue
		}
		j := strings.Index(code, preamble)
		if j < 0 {
			t.Fatalf("%s: preamble not found in generated file", sel)
		}
		fmt.Fprintf(&all, "Module M%d.\n%s%s\nEnd M%d.\n", i, code[:j], code[j+len(preamble):], i)
	}
	tmp := t.TempDir()
	f := filepath.Join(tmp, "All.v")
	os.WriteFile(f, []byte(all.String()), 0o644)
	cmd := exec.Command("timeout", "300", coqc, "-Q", theories, "Goloop", f)
	if out, err := cmd.CombinedOutput(); err != nil {
		t.Errorf("coqc rejects the generated definitions: %v\n%s", err, out)
	}
}
