package main

import (
	"fmt"
	"go/ast"
	"go/token"
	"go/types"
	"path/filepath"
	"regexp"
	"strconv"
	"strings"
)

// findFunc resolves `Func`, `Type.Method` or `(*Type).Method`.
func findFunc(p *pkgInfo, sel string) (*ast.FuncDecl, error) {
	recv, name := "", sel
	if i := strings.LastIndex(sel, "."); i >= 0 {
		recv, name = sel[:i], sel[i+1:]
		recv = strings.TrimSuffix(strings.TrimPrefix(strings.TrimPrefix(recv, "("), "*"), ")")
	}
	var found *ast.FuncDecl
	for _, f := range p.files {
		for _, d := range f.Decls {
			fd, ok := d.(*ast.FuncDecl)
			if !ok || fd.Name.Name != name {
				continue
			}
			r := ""
			if fd.Recv != nil && len(fd.Recv.List) == 1 {
				rt := fd.Recv.List[0].Type
				if s, ok := rt.(*ast.StarExpr); ok {
					rt = s.X
				}
				if ix, ok := rt.(*ast.IndexExpr); ok {
					rt = ix.X
				}
				if id, ok := rt.(*ast.Ident); ok {
					r = id.Name
				} else {
					r = "?"
				}
			}
			if r != recv {
				continue
			}
			if found != nil {
				return nil, fmt.Errorf("function %s is declared more than once in the package", sel)
			}
			found = fd
		}
	}
	if found == nil {
		return nil, fmt.Errorf("function %s not found in %s", sel, p.rel)
	}
	if found.Body == nil {
		return nil, fmt.Errorf("function %s has no body", sel)
	}
	if found.Type.TypeParams != nil {
		return nil, fmt.Errorf("function %s is generic", sel)
	}
	return found, nil
}

func translateKernel(p *pkgInfo, k kernelSpec) (code string, err error) {
	defer func() {
		if r := recover(); r != nil {
			if f, ok := r.(failure); ok {
				err = fmt.Errorf("%s", f.msg)
				return
			}
			panic(r)
		}
	}()
	fsel, frag := k.Sel, ""
	if i := strings.Index(k.Sel, ":"); i >= 0 {
		fsel, frag = k.Sel[:i], k.Sel[i+1:]
	}
	fd, err := findFunc(p, fsel)
	if err != nil {
		return "", err
	}
	t := &tr{p: p, name: k.Name, byText: map[string]*param{}, free: map[string]*lvar{}, used: map[string]bool{},
		declName: map[*ast.Ident]string{}}
	var body, rty string
	var srcNode ast.Node
	if frag == "" {
		body, rty = t.wholeFunc(fd)
		srcNode = fd
	} else {
		t.fragment = true
		body, rty, srcNode = t.fragmentOf(fd, frag)
	}
	return t.emit(k, fd, srcNode, body, rty), nil
}

// wholeFunc translates a complete function.
func (t *tr) wholeFunc(fd *ast.FuncDecl) (string, string) {
	var en *env
	addScalar := func(id *ast.Ident, ty ast.Expr, origin string) {
		k := "unknown"
		if tv, ok := t.p.info.Types[ty]; ok {
			k = kindOfType(tv.Type)
		}
		if id == nil || id.Name == "_" {
			return
		}
		if !isInt(k) && k != "bool" {
			t.notes = append(t.notes, fmt.Sprintf("Go %s `%s %s` is not a scalar: it only appears through abstracted atoms", origin, id.Name, types.ExprString(ty)))
			return
		}
		p := t.addParam(id.Name, k, origin)
		en = en.bind(id.Name, &lvar{p.coq, k})
	}
	if fd.Recv != nil {
		for _, f := range fd.Recv.List {
			for _, id := range f.Names {
				addScalar(id, f.Type, "receiver")
			}
		}
	}
	for _, f := range fd.Type.Params.List {
		if _, variadic := f.Type.(*ast.Ellipsis); variadic {
			failf("variadic parameter")
		}
		for _, id := range f.Names {
			addScalar(id, f.Type, "param")
		}
	}
	t.results, t.resNames = t.resultKinds(fd)
	if len(t.results) == 0 {
		failf("function has no result")
	}
	t.resType = tupleType(t.results)
	pre := ""
	for i, n := range t.resNames {
		if n == "_" {
			failf("blank named result")
		}
		if t.results[i] == "error" {
			failf("named error result")
		}
		c := t.fresh(n)
		en = en.bind(n, &lvar{c, t.results[i]})
		pre += fmt.Sprintf("let %s := %s in\n", c, zero(t.results[i]))
	}
	loops := containsLoop(fd.Body)
	cx := ctx{en: en, ret: func(e string) string { return e }}
	rty := t.resType
	if loops {
		cx.ret = func(e string) string { return "Some " + e }
		rty = "option " + t.resType
	}
	body := pre + t.stmts(fd.Body.List, cx, func() string {
		failf("control can reach the end of the function body (missing return on some path)")
		return ""
	})
	if loops {
		t.notes = append(t.notes, "the function contains a loop: the definition takes `fuel : nat` first and returns None when fuel runs out")
	}
	return body, rty
}

func (t *tr) resultKinds(fd *ast.FuncDecl) (kinds, names []string) {
	if fd.Type.Results == nil {
		return nil, nil
	}
	for _, f := range fd.Type.Results.List {
		k := "unknown"
		if tv, ok := t.p.info.Types[f.Type]; ok {
			k = kindOfType(tv.Type)
		}
		if id, ok := f.Type.(*ast.Ident); ok && id.Name == "error" && k == "unknown" {
			k = "error"
		}
		if !isInt(k) && k != "bool" && k != "error" {
			failf("result type %s is outside the subset", types.ExprString(f.Type))
		}
		n := len(f.Names)
		if n == 0 {
			n = 1
		}
		for i := 0; i < n; i++ {
			kinds = append(kinds, k)
			if len(f.Names) > 0 {
				names = append(names, f.Names[i].Name)
			}
		}
	}
	return
}

var (
	reIfN    = regexp.MustCompile(`^if#(\d+)$`)
	reIfAt   = regexp.MustCompile(`^if@([A-Za-z_][A-Za-z0-9_]*)(?:#(\d+))?$`)
	reRetN   = regexp.MustCompile(`^return#(\d+)$`)
	reField  = regexp.MustCompile(`^field#([A-Za-z_][A-Za-z0-9_]*)(?:#(\d+))?$`)
	reLocalN = regexp.MustCompile(`^([A-Za-z_][A-Za-z0-9_]*)(?:#(\d+))?$`)
)

func mentions(n ast.Node, name string) bool {
	found := false
	ast.Inspect(n, func(n ast.Node) bool {
		if id, ok := n.(*ast.Ident); ok && id.Name == name {
			found = true
		}
		return !found
	})
	return found
}

func atoiDef(s string) int {
	if s == "" {
		return 1
	}
	n, _ := strconv.Atoi(s)
	return n
}

// fragmentOf translates an addressed fragment of fd's body.
func (t *tr) fragmentOf(fd *ast.FuncDecl, frag string) (string, string, ast.Node) {
	var nodes []ast.Node
	collect := func(match func(ast.Node) bool) {
		ast.Inspect(fd.Body, func(n ast.Node) bool {
			if n != nil && match(n) {
				nodes = append(nodes, n)
			}
			return true
		})
	}
	pick := func(k int, what string) ast.Node {
		if k < 1 || k > len(nodes) {
			failf("fragment %s not found: the function has %d %s", frag, len(nodes), what)
		}
		return nodes[k-1]
	}
	ifFrag := func(n ast.Node) (string, string, ast.Node) {
		s := n.(*ast.IfStmt)
		pre, en := t.simple(s.Init, ctx{})
		return pre + t.boolExpr(s.Cond, en), "bool", &ast.IfStmt{If: s.If, Init: s.Init, Cond: s.Cond, Body: &ast.BlockStmt{Lbrace: s.Body.Lbrace, Rbrace: s.Body.Lbrace}}
	}
	switch {
	case reIfN.MatchString(frag):
		m := reIfN.FindStringSubmatch(frag)
		collect(func(n ast.Node) bool { _, ok := n.(*ast.IfStmt); return ok })
		return ifFrag(pick(atoiDef(m[1]), "if statements"))
	case reIfAt.MatchString(frag):
		m := reIfAt.FindStringSubmatch(frag)
		collect(func(n ast.Node) bool {
			s, ok := n.(*ast.IfStmt)
			return ok && (mentions(s.Cond, m[1]) || (s.Init != nil && mentions(s.Init, m[1])))
		})
		return ifFrag(pick(atoiDef(m[2]), "if statements whose condition mentions "+m[1]))
	case reRetN.MatchString(frag):
		m := reRetN.FindStringSubmatch(frag)
		collect(func(n ast.Node) bool { _, ok := n.(*ast.ReturnStmt); return ok })
		s := pick(atoiDef(m[1]), "return statements").(*ast.ReturnStmt)
		t.results, t.resNames = t.resultKinds(fd)
		if len(s.Results) == 0 {
			failf("fragment %s is a bare return", frag)
		}
		return t.retExpr(s, nil), tupleType(t.results), s
	case reField.MatchString(frag):
		m := reField.FindStringSubmatch(frag)
		collect(func(n ast.Node) bool {
			kv, ok := n.(*ast.KeyValueExpr)
			if !ok {
				return false
			}
			id, ok := kv.Key.(*ast.Ident)
			return ok && id.Name == m[1]
		})
		kv := pick(atoiDef(m[2]), "composite-literal fields named "+m[1]).(*ast.KeyValueExpr)
		c, k := t.expr(kv.Value, nil, "")
		return c, coqType(varKind(k, t.pos(kv))), kv
	case reLocalN.MatchString(frag):
		m := reLocalN.FindStringSubmatch(frag)
		type def struct {
			n   ast.Node
			rhs ast.Expr
		}
		var defs []def
		ast.Inspect(fd.Body, func(n ast.Node) bool {
			switch s := n.(type) {
			case *ast.AssignStmt:
				if (s.Tok == token.DEFINE || s.Tok == token.ASSIGN) && len(s.Lhs) == len(s.Rhs) {
					for i, l := range s.Lhs {
						if id, ok := l.(*ast.Ident); ok && id.Name == m[1] {
							defs = append(defs, def{s, s.Rhs[i]})
						}
					}
				}
			case *ast.ValueSpec:
				if len(s.Values) == len(s.Names) {
					for i, id := range s.Names {
						if id.Name == m[1] {
							defs = append(defs, def{s, s.Values[i]})
						}
					}
				}
			}
			return true
		})
		k := atoiDef(m[2])
		if k < 1 || k > len(defs) {
			failf("fragment %s not found: the function has %d definitions of a local named %s", frag, len(defs), m[1])
		}
		c, kd := t.expr(defs[k-1].rhs, nil, "")
		return c, coqType(varKind(kd, t.pos(defs[k-1].n))), defs[k-1].n
	}
	failf("unknown fragment selector %q", frag)
	return "", "", nil
}

// ---------------------------------------------------------------------------
// output
// ---------------------------------------------------------------------------

// commentSafe makes text safe inside a Coq comment (no comment delimiters, no string quotes).
func commentSafe(s string) string {
	s = strings.ReplaceAll(s, "(*", "( *")
	s = strings.ReplaceAll(s, "*)", "* )")
	s = strings.ReplaceAll(s, `"`, "'")
	return s
}

func coqString(s string) string { return `"` + strings.ReplaceAll(s, `"`, `""`) + `"` }

func (t *tr) source(n ast.Node) string {
	ps, pe := t.p.fset.Position(n.Pos()), t.p.fset.Position(n.End())
	src := t.p.src[ps.Filename]
	if src == nil || pe.Offset > len(src) || ps.Offset > pe.Offset {
		return ""
	}
	// whole lines
	a, b := ps.Offset, pe.Offset
	for a > 0 && src[a-1] != '\n' {
		a--
	}
	for b < len(src) && src[b] != '\n' {
		b++
	}
	return string(src[a:b])
}

func (t *tr) emit(k kernelSpec, fd *ast.FuncDecl, srcNode ast.Node, body, rty string) string {
	var b strings.Builder
	ps := t.p.fset.Position(srcNode.Pos())
	file := filepath.ToSlash(filepath.Join(t.p.rel, filepath.Base(ps.Filename)))
	fmt.Fprintf(&b, "(* GENERATED by tools/go2coq on every run -- do not edit, do not commit.\n")
	fmt.Fprintf(&b, "   kernel   : %s\n", k.Name)
	fmt.Fprintf(&b, "   source   : %s  selector %s\n", file, commentSafe(k.Sel))
	fmt.Fprintf(&b, "   Go integers are explicit: int/uint are 64 bit, every arithmetic node is wrapped\n")
	fmt.Fprintf(&b, "   (lib/GoInt.v), / is Z.quot, %% is Z.rem (x/0 and x%%0 panic in Go; here they are 0 and x).\n")
	fmt.Fprintf(&b, "   parameters, in order (kind; origin; Go text):\n")
	if strings.HasPrefix(rty, "option ") && t.nloop > 0 {
		fmt.Fprintf(&b, "     fuel : nat   (loop fuel; not listed in %s_params)\n", k.Name)
	}
	for _, p := range t.params {
		fmt.Fprintf(&b, "     %s : %s   (%s; %s; %s)\n", p.coq, coqType(normKind(p.kind)), kindDoc(p.kind), p.origin, commentSafe(p.text))
	}
	if len(t.params) == 0 {
		fmt.Fprintf(&b, "     (none)\n")
	}
	for _, n := range t.notes {
		fmt.Fprintf(&b, "   note: %s\n", commentSafe(n))
	}
	fmt.Fprintf(&b, "   Go source at translation time:\n")
	for _, ln := range strings.Split(strings.ReplaceAll(t.source(srcNode), "\t", "    "), "\n") {
		fmt.Fprintf(&b, "     | %s\n", commentSafe(ln))
	}
	fmt.Fprintf(&b, "*)\n")
	fmt.Fprintf(&b, "From Goloop Require Import lib.GoInt.\n")
	fmt.Fprintf(&b, "From Coq Require Import ZArith Bool String List.\nImport ListNotations.\n")
	fmt.Fprintf(&b, "Local Open Scope Z_scope.\nLocal Open Scope bool_scope.\n\n")
	var texts, kinds, decls []string
	for _, p := range t.params {
		texts = append(texts, coqString(p.text))
		kinds = append(kinds, coqString(kindDoc(p.kind)))
		decls = append(decls, fmt.Sprintf("(%s : %s)", p.coq, coqType(normKind(p.kind))))
	}
	fmt.Fprintf(&b, "Definition %s_params : list string := [%s]%%string.\n", k.Name, strings.Join(texts, "; "))
	fmt.Fprintf(&b, "Definition %s_param_kinds : list string := [%s]%%string.\n\n", k.Name, strings.Join(kinds, "; "))
	for _, l := range t.loops {
		b.WriteString(l)
		b.WriteString("\n")
	}
	fuel := ""
	if t.nloop > 0 {
		fuel = "(fuel : nat) "
	}
	sp := ""
	if len(decls) > 0 {
		sp = " "
	}
	fmt.Fprintf(&b, "Definition %s %s%s%s: %s :=\n%s.\n", k.Name, fuel, strings.Join(decls, " "), sp, rty, indent(body))
	return b.String()
}

func kindDoc(k string) string {
	switch k {
	case "unknown":
		return "Z?" // integer of unresolved width
	case "bool?":
		return "bool?" // unresolved type used as a condition
	}
	return k
}
