// go2coq re-generates, from the CURRENT source of a Go repository, Coq
// definitions of small scalar "decision kernels" (see docs/notes/go2coq.md).
//
//	go2coq -repo <dir> -kernels <kernels.list> -out <dir>
//
// writes K_<coqname>.v for every kernel that translates and errors.json
// {"<coqname>": "<why>"} for those that do not; exit code 1 if any failed.
// Standard library only; dependencies of the package are NOT type-checked
// (imports resolve to empty packages and type errors are ignored).
package main

import (
	"encoding/json"
	"flag"
	"fmt"
	"go/ast"
	"go/build"
	"go/parser"
	"go/token"
	"go/types"
	"os"
	"path"
	"path/filepath"
	"sort"
	"strings"
)

// kernelSpec is one line of kernels.list: `<pkgdir> <selector> -> <coqname>`.
type kernelSpec struct {
	Dir, Sel, Name string
	Line           int
}

func parseKernelList(text string) ([]kernelSpec, error) {
	var out []kernelSpec
	seen := map[string]bool{}
	for i, ln := range strings.Split(text, "\n") {
		if j := strings.Index(ln, "#"); j >= 0 && (j == 0 || ln[j-1] == ' ' || ln[j-1] == '\t') {
			// `#` starts a comment only at line start or after blank (selectors contain `if#1`)
			ln = ln[:j]
		}
		f := strings.Fields(ln)
		if len(f) == 0 {
			continue
		}
		if len(f) != 4 || f[2] != "->" {
			return nil, fmt.Errorf("kernels.list:%d: want `<pkgdir> <selector> -> <coqname>`, got %q", i+1, ln)
		}
		if !isCoqIdent(f[3]) {
			return nil, fmt.Errorf("kernels.list:%d: %q is not a usable Coq identifier", i+1, f[3])
		}
		if seen[f[3]] {
			return nil, fmt.Errorf("kernels.list:%d: duplicate Coq name %q", i+1, f[3])
		}
		seen[f[3]] = true
		out = append(out, kernelSpec{Dir: f[0], Sel: f[1], Name: f[3], Line: i + 1})
	}
	return out, nil
}

func isCoqIdent(s string) bool {
	if s == "" || coqReserved[s] {
		return false
	}
	for i, r := range s {
		ok := r == '_' || (r >= 'a' && r <= 'z') || (r >= 'A' && r <= 'Z') || (i > 0 && r >= '0' && r <= '9')
		if !ok {
			return false
		}
	}
	return true
}

// pkgInfo is a parsed and (leniently) type-checked package directory.
type pkgInfo struct {
	fset  *token.FileSet
	files []*ast.File
	info  *types.Info
	rel   string
	src   map[string][]byte // file name -> source
	err   error
}

type fakeImporter struct{ cache map[string]*types.Package }

func (f *fakeImporter) Import(p string) (*types.Package, error) {
	if pk, ok := f.cache[p]; ok {
		return pk, nil
	}
	name := path.Base(p)
	if i := strings.LastIndex(name, ".v"); i > 0 { // gopkg.in/yaml.v2 -> yaml
		name = name[:i]
	}
	name = strings.TrimPrefix(name, "go-")
	pk := types.NewPackage(p, name)
	pk.MarkComplete()
	f.cache[p] = pk
	return pk, nil
}

// loadPackage parses the non-test Go files of one directory and type-checks
// them with every import resolving to an empty package; errors are ignored,
// so constants, local types and local variables still get resolved.
func loadPackage(repo, rel string) *pkgInfo {
	p := &pkgInfo{fset: token.NewFileSet(), rel: rel, src: map[string][]byte{}}
	dir := filepath.Join(repo, rel)
	ents, err := os.ReadDir(dir)
	if err != nil {
		p.err = fmt.Errorf("package directory %s: %v", rel, err)
		return p
	}
	bctx := build.Default
	pkgName := ""
	for _, e := range ents {
		n := e.Name()
		if e.IsDir() || !strings.HasSuffix(n, ".go") || strings.HasSuffix(n, "_test.go") {
			continue
		}
		if ok, _ := bctx.MatchFile(dir, n); !ok {
			continue
		}
		full := filepath.Join(dir, n)
		src, err := os.ReadFile(full)
		if err != nil {
			continue
		}
		f, err := parser.ParseFile(p.fset, full, src, parser.SkipObjectResolution)
		if f == nil || (err != nil && f.Name == nil) {
			continue
		}
		if pkgName == "" {
			pkgName = f.Name.Name
		}
		if f.Name.Name != pkgName {
			continue
		}
		p.files = append(p.files, f)
		p.src[full] = src
	}
	if len(p.files) == 0 {
		p.err = fmt.Errorf("package directory %s: no Go files", rel)
		return p
	}
	p.info = &types.Info{
		Types: map[ast.Expr]types.TypeAndValue{},
		Defs:  map[*ast.Ident]types.Object{},
		Uses:  map[*ast.Ident]types.Object{},
	}
	conf := types.Config{
		Importer:                 &fakeImporter{cache: map[string]*types.Package{}},
		Error:                    func(error) {},
		FakeImportC:              true,
		DisableUnusedImportCheck: true,
	}
	conf.Check(rel, p.fset, p.files, p.info) // result deliberately ignored
	return p
}

func main() {
	repo := flag.String("repo", "", "repository root")
	klist := flag.String("kernels", "", "kernels.list")
	out := flag.String("out", "", "output directory")
	flag.Parse()
	if *repo == "" || *klist == "" || *out == "" {
		fmt.Fprintln(os.Stderr, "usage: go2coq -repo <dir> -kernels <kernels.list> -out <dir>")
		os.Exit(2)
	}
	text, err := os.ReadFile(*klist)
	if err != nil {
		fmt.Fprintln(os.Stderr, err)
		os.Exit(2)
	}
	specs, err := parseKernelList(string(text))
	if err != nil {
		fmt.Fprintln(os.Stderr, err)
		os.Exit(2)
	}
	if err := os.MkdirAll(*out, 0o755); err != nil {
		fmt.Fprintln(os.Stderr, err)
		os.Exit(2)
	}
	pkgs := map[string]*pkgInfo{}
	errs := map[string]string{}
	for _, k := range specs {
		p := pkgs[k.Dir]
		if p == nil {
			p = loadPackage(*repo, k.Dir)
			pkgs[k.Dir] = p
		}
		if p.err != nil {
			errs[k.Name] = p.err.Error()
			continue
		}
		code, err := translateKernel(p, k)
		if err != nil {
			errs[k.Name] = fmt.Sprintf("%s %s: %v", k.Dir, k.Sel, err)
			continue
		}
		if err := os.WriteFile(filepath.Join(*out, "K_"+k.Name+".v"), []byte(code), 0o644); err != nil {
			errs[k.Name] = err.Error()
		}
	}
	js, _ := json.MarshalIndent(errs, "", " ")
	os.WriteFile(filepath.Join(*out, "errors.json"), append(js, '\n'), 0o644)
	names := make([]string, 0, len(errs))
	for n := range errs {
		names = append(names, n)
	}
	sort.Strings(names)
	for _, n := range names {
		fmt.Printf("go2coq: FAIL %s: %s\n", n, errs[n])
	}
	fmt.Printf("go2coq: %d kernels, %d translated, %d failed\n", len(specs), len(specs)-len(errs), len(errs))
	if len(errs) > 0 {
		os.Exit(1)
	}
}
