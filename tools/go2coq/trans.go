package main

import (
	"fmt"
	"go/ast"
	"go/constant"
	"go/token"
	"go/types"
	"regexp"
	"strconv"
	"strings"
)

// ---------------------------------------------------------------------------
// kinds: the scalar types of the subset
//
//	i8 i16 i32 i64 int u8 u16 u32 u64 uint   sized integers (int/uint are 64 bit)
//	bool
//	untyped   an untyped integer constant
//	unknown   type could not be resolved (comes from an unchecked import): Z, or bool by context
//	error     result position only
//	other     a resolved non-scalar type (struct, pointer, slice, string, ...)
// ---------------------------------------------------------------------------

type intKind struct {
	bits   int
	signed bool
}

var intKinds = map[string]intKind{
	"i8": {8, true}, "i16": {16, true}, "i32": {32, true}, "i64": {64, true}, "int": {64, true},
	"u8": {8, false}, "u16": {16, false}, "u32": {32, false}, "u64": {64, false}, "uint": {64, false},
}

func isInt(k string) bool { _, ok := intKinds[k]; return ok }

// fits reports whether every value of kind a is a value of kind b.
func fits(a, b string) bool {
	x, ok1 := intKinds[a]
	y, ok2 := intKinds[b]
	if !ok1 || !ok2 {
		return false
	}
	if x.signed == y.signed {
		return x.bits <= y.bits
	}
	return !x.signed && y.signed && x.bits < y.bits
}

var errorType = types.Universe.Lookup("error").Type()

func kindOfType(t types.Type) string {
	if t == nil {
		return "unknown"
	}
	if types.Identical(t, errorType) {
		return "error"
	}
	if b, ok := t.Underlying().(*types.Basic); ok {
		switch b.Kind() {
		case types.Invalid:
			return "unknown"
		case types.Bool, types.UntypedBool:
			return "bool"
		case types.Int:
			return "int"
		case types.Int8:
			return "i8"
		case types.Int16:
			return "i16"
		case types.Int32:
			return "i32"
		case types.Int64:
			return "i64"
		case types.Uint:
			return "uint"
		case types.Uint8:
			return "u8"
		case types.Uint16:
			return "u16"
		case types.Uint32:
			return "u32"
		case types.Uint64:
			return "u64"
		case types.UntypedInt, types.UntypedRune:
			return "untyped"
		}
	}
	return "other"
}

func coqType(k string) string {
	switch k {
	case "bool":
		return "bool"
	case "error":
		return "gerr"
	}
	return "Z"
}

func zero(k string) string {
	switch k {
	case "bool":
		return "false"
	case "error":
		return "ENil"
	}
	return "0"
}

func wrap(k, c string) string {
	if !isInt(k) {
		failf("internal: wrap on kind %s", k)
	}
	return "(wrap_" + k + " " + c + ")"
}

// ---------------------------------------------------------------------------

type failure struct{ msg string }

func failf(format string, a ...any) { panic(failure{fmt.Sprintf(format, a...)}) }

var coqReserved = map[string]bool{}

func init() {
	for _, w := range strings.Fields(`as at cofix else end exists exists2 fix for forall fun if IF in let match mod
		return Set Prop SProp Type then using where with by only
		Z nat bool option list string unit tt true false negb andb orb xorb Some None inl inr pair fst snd
		O S fuel gerr ENil EErr eqb
		wrap_i8 wrap_i16 wrap_i32 wrap_i64 wrap_int wrap_u8 wrap_u16 wrap_u32 wrap_u64 wrap_uint
		bits_len64 bits_len32 bits_tz64 bits_tz32`) {
		coqReserved[w] = true
	}
}

// lvar is a scalar Go variable visible to the translated code.
type lvar struct{ coq, kind string }

// env is a persistent (immutable) scope chain: Go name -> variable.
type env struct {
	name string
	v    *lvar
	up   *env
}

func (e *env) lookup(n string) *lvar {
	for ; e != nil; e = e.up {
		if e.name == n {
			return e.v
		}
	}
	return nil
}
func (e *env) bind(n string, v *lvar) *env { return &env{n, v, e} }
func (e *env) vars() []*lvar { // outermost first
	var out []*lvar
	for ; e != nil; e = e.up {
		out = append(out, e.v)
	}
	for i, j := 0, len(out)-1; i < j; i, j = i+1, j-1 {
		out[i], out[j] = out[j], out[i]
	}
	return out
}

// param is a parameter of the generated definition.
type param struct {
	coq, text, kind, origin string // origin: param | receiver | atom | free
}

type cont func() string

// ctx is the control context of a statement.
type ctx struct {
	en       *env
	ret      func(string) string
	brk, cnt cont
}

type tr struct {
	p        *pkgInfo
	name     string
	fragment bool
	params   []*param
	byText   map[string]*param
	free     map[string]*lvar
	used     map[string]bool
	declName map[*ast.Ident]string
	results  []string
	resNames []string
	nloop    int
	nsw      int
	loops    []string
	notes    []string
	resType  string
}

func (t *tr) fresh(base string) string {
	if base == "" || base == "_" {
		base = "x"
	}
	if base[0] >= '0' && base[0] <= '9' {
		base = "x" + base
	}
	n := base
	if coqReserved[n] {
		n = base + "_"
	}
	for i := 1; t.used[n] || n == t.name || strings.HasPrefix(n, t.name+"_loop") || strings.HasPrefix(n, t.name+"_param"); i++ {
		n = fmt.Sprintf("%s_%d", base, i)
	}
	t.used[n] = true
	return n
}

var nonIdent = regexp.MustCompile(`[^A-Za-z0-9]+`)

func sanitize(text string) string {
	return strings.Trim(nonIdent.ReplaceAllString(text, "_"), "_")
}

func (t *tr) addParam(text, kind, origin string) *param {
	p := &param{coq: t.fresh(sanitize(text)), text: text, kind: kind, origin: origin}
	t.params = append(t.params, p)
	t.byText[text] = p
	return p
}

func (t *tr) pos(n ast.Node) string {
	ps := t.p.fset.Position(n.Pos())
	return fmt.Sprintf("line %d", ps.Line)
}

// ---------------------------------------------------------------------------
// expressions
// ---------------------------------------------------------------------------

func zlit(v constant.Value) string {
	s := v.ExactString()
	if strings.HasPrefix(s, "-") {
		return "(" + s + ")"
	}
	return s
}

func isNil(e ast.Expr) bool {
	id, ok := ast.Unparen(e).(*ast.Ident)
	return ok && id.Name == "nil"
}

func (t *tr) isPkgName(id *ast.Ident) bool {
	_, ok := t.p.info.Uses[id].(*types.PkgName)
	return ok
}

// importPath returns the import path if id names an imported package.
func (t *tr) importPath(id *ast.Ident) string {
	if pn, ok := t.p.info.Uses[id].(*types.PkgName); ok {
		return pn.Imported().Path()
	}
	return ""
}

// atomCheck verifies that e has the shape of an abstractable atom and does
// not depend on a scalar variable of the translated code (whose value may
// change between two textually equal occurrences).
func (t *tr) atomCheck(e ast.Expr, en *env) {
	switch e := e.(type) {
	case *ast.ParenExpr:
		t.atomCheck(e.X, en)
	case *ast.Ident:
		if en.lookup(e.Name) != nil {
			failf("%s: abstracted atom depends on scalar variable %s", t.pos(e), e.Name)
		}
	case *ast.SelectorExpr:
		t.atomCheck(e.X, en)
	case *ast.StarExpr:
		t.atomCheck(e.X, en)
	case *ast.IndexExpr:
		t.atomCheck(e.X, en)
		t.atomArg(e.Index, en)
	case *ast.CallExpr:
		if id, ok := e.Fun.(*ast.Ident); ok && (id.Name == "len" || id.Name == "cap") && len(e.Args) == 1 {
			t.atomCheck(e.Args[0], en)
			return
		}
		sel, ok := e.Fun.(*ast.SelectorExpr)
		if !ok {
			failf("%s: call %s is outside the subset", t.pos(e), types.ExprString(e))
		}
		if id, ok := sel.X.(*ast.Ident); ok && t.isPkgName(id) {
			failf("%s: call of package function %s is outside the subset", t.pos(e), types.ExprString(e))
		}
		t.atomCheck(sel.X, en)
		for _, a := range e.Args {
			if tv, ok := t.p.info.Types[a]; ok && tv.Value != nil {
				continue
			}
			if id, ok := a.(*ast.Ident); ok && en.lookup(id.Name) == nil {
				if o := t.p.info.Uses[id]; o != nil && o.Pkg() != nil && o.Parent() == o.Pkg().Scope() {
					continue // package-level name (typically a constant we could not evaluate)
				}
			}
			failf("%s: method call %s has a non-constant argument; only argument-free (or constant-argument) method calls are abstracted", t.pos(e), types.ExprString(e))
		}
	case *ast.BasicLit:
	default:
		failf("%s: expression %s is outside the subset", t.pos(e), types.ExprString(e))
	}
}

// atomArg: an index expression inside an atom; anything without scalar variables.
func (t *tr) atomArg(e ast.Expr, en *env) {
	ast.Inspect(e, func(n ast.Node) bool {
		if id, ok := n.(*ast.Ident); ok && en.lookup(id.Name) != nil {
			failf("%s: abstracted atom depends on scalar variable %s", t.pos(id), id.Name)
		}
		if _, ok := n.(*ast.FuncLit); ok {
			failf("%s: function literal", t.pos(n))
		}
		return true
	})
}

// atom abstracts e into a parameter (keyed by its source text).
func (t *tr) atom(e ast.Expr, text string, en *env, want, force string) (string, string) {
	t.atomCheck(e, en)
	k := force
	if k == "" {
		if tv, ok := t.p.info.Types[e]; ok {
			k = kindOfType(tv.Type)
		} else {
			k = "unknown"
		}
	}
	if k == "untyped" {
		k = "int"
	}
	if k == "other" || k == "error" {
		failf("%s: %s has a non-scalar type", t.pos(e), text)
	}
	if k == "unknown" && want == "bool" {
		k = "bool?"
	}
	if p := t.byText[text]; p != nil {
		if (p.kind == "bool?" && k == "unknown") || (p.kind == "unknown" && k == "bool?") {
			failf("%s: %s (of unresolved type) is used both as a condition and as a number", t.pos(e), text)
		}
		return p.coq, normKind(p.kind)
	}
	p := t.addParam(text, k, "atom")
	return p.coq, normKind(k)
}

// "bool?" = unresolved type used as a condition: a bool parameter.
func normKind(k string) string {
	if k == "bool?" {
		return "bool"
	}
	return k
}

func (t *tr) ident(e *ast.Ident, en *env, want string) (string, string) {
	if v := en.lookup(e.Name); v != nil {
		return v.coq, v.kind
	}
	if v := t.free[e.Name]; v != nil {
		return v.coq, v.kind
	}
	if e.Name == "nil" {
		failf("%s: nil outside a comparison or an error result", t.pos(e))
	}
	if e.Name == "_" {
		failf("%s: blank identifier", t.pos(e))
	}
	obj := t.p.info.Uses[e]
	pkgLevel := obj != nil && obj.Pkg() != nil && obj.Parent() == obj.Pkg().Scope()
	if _, isVar := obj.(*types.Var); t.fragment && (obj == nil || (isVar && !pkgLevel)) {
		// a free local variable / parameter of the enclosing function: a parameter of the fragment
		k := "unknown"
		if obj != nil {
			k = kindOfType(obj.Type())
		}
		if k == "untyped" {
			k = "int"
		}
		if k == "other" || k == "error" {
			failf("%s: variable %s has a non-scalar type", t.pos(e), e.Name)
		}
		if k == "unknown" && want == "bool" {
			k = "bool?"
		}
		p := t.addParam(e.Name, k, "free")
		v := &lvar{p.coq, normKind(k)}
		t.free[e.Name] = v
		return v.coq, v.kind
	}
	switch obj.(type) {
	case *types.Var, *types.Const:
		// package-level variable, or a constant whose value needs an import we did not load
		return t.atom(e, e.Name, en, want, "")
	}
	failf("%s: identifier %s is outside the subset", t.pos(e), e.Name)
	return "", ""
}

var cmpOps = map[token.Token]string{token.LSS: "<?", token.LEQ: "<=?", token.GTR: ">?", token.GEQ: ">=?"}

func (t *tr) boolExpr(e ast.Expr, en *env) string {
	c, k := t.expr(e, en, "bool")
	if k != "bool" {
		failf("%s: %s is not a boolean", t.pos(e), types.ExprString(e))
	}
	return c
}

func (t *tr) intExpr(e ast.Expr, en *env) (string, string) {
	c, k := t.expr(e, en, "int")
	if k == "bool" || k == "other" || k == "error" {
		failf("%s: %s is not an integer", t.pos(e), types.ExprString(e))
	}
	return c, k
}

// join gives the kind of a binary arithmetic node from the operand kinds.
func (t *tr) join(e ast.Expr, a, b string) string {
	switch {
	case isInt(a) && (a == b || b == "untyped" || b == "unknown"):
		return a
	case isInt(b) && (a == "untyped" || a == "unknown"):
		return b
	case isInt(a) && isInt(b):
		failf("%s: mismatched operand types %s and %s in %s", t.pos(e), a, b, types.ExprString(e))
	}
	// fall back to what go/types says about the node
	if tv, ok := t.p.info.Types[e]; ok {
		if k := kindOfType(tv.Type); isInt(k) {
			return k
		}
	}
	failf("%s: cannot determine the integer width of %s (operands come from unresolved imports)", t.pos(e), types.ExprString(e))
	return ""
}

// expr translates a scalar expression. want is "bool", "int" or "".
func (t *tr) expr(e ast.Expr, en *env, want string) (string, string) {
	e = ast.Unparen(e)
	if tv, ok := t.p.info.Types[e]; ok && tv.Value != nil {
		shadow := false
		if id, ok := e.(*ast.Ident); ok && (en.lookup(id.Name) != nil || t.free[id.Name] != nil) {
			shadow = true
		}
		if !shadow {
			switch tv.Value.Kind() {
			case constant.Int:
				k := kindOfType(tv.Type)
				if !isInt(k) {
					k = "untyped"
				}
				return zlit(tv.Value), k
			case constant.Bool:
				return strconv.FormatBool(constant.BoolVal(tv.Value)), "bool"
			default:
				if v := constant.ToInt(tv.Value); v.Kind() == constant.Int && isInt(kindOfType(tv.Type)) {
					return zlit(v), kindOfType(tv.Type)
				}
				failf("%s: constant %s is not an integer or boolean", t.pos(e), types.ExprString(e))
			}
		}
	}
	switch e := e.(type) {
	case *ast.Ident:
		return t.ident(e, en, want)
	case *ast.BasicLit:
		if e.Kind == token.INT || e.Kind == token.CHAR {
			v := constant.MakeFromLiteral(e.Value, e.Kind, 0)
			return zlit(v), "untyped"
		}
		failf("%s: literal %s is outside the subset", t.pos(e), e.Value)
	case *ast.UnaryExpr:
		switch e.Op {
		case token.NOT:
			return "(negb " + t.boolExpr(e.X, en) + ")", "bool"
		case token.ADD:
			return t.intExpr(e.X, en)
		case token.SUB:
			c, k := t.intExpr(e.X, en)
			k = t.join(e, k, k)
			return wrap(k, "(- "+c+")"), k
		case token.XOR:
			c, k := t.intExpr(e.X, en)
			k = t.join(e, k, k)
			return wrap(k, "(Z.lnot "+c+")"), k
		}
		failf("%s: unary %s is outside the subset", t.pos(e), e.Op)
	case *ast.BinaryExpr:
		return t.binary(e, en)
	case *ast.CallExpr:
		return t.call(e, en, want)
	case *ast.SelectorExpr, *ast.IndexExpr:
		return t.atom(e, types.ExprString(e), en, want, "")
	}
	failf("%s: expression %s is outside the subset", t.pos(e), types.ExprString(e))
	return "", ""
}

func (t *tr) binary(e *ast.BinaryExpr, en *env) (string, string) {
	switch e.Op {
	case token.LAND, token.LOR:
		a := t.boolExpr(e.X, en)
		b := t.boolExpr(e.Y, en)
		op := "&&"
		if e.Op == token.LOR {
			op = "||"
		}
		return "(" + a + " " + op + " " + b + ")", "bool"
	case token.EQL, token.NEQ:
		var c string
		if isNil(e.X) || isNil(e.Y) {
			o := e.X
			if isNil(e.X) {
				o = e.Y
			}
			o = ast.Unparen(o)
			c, _ = t.atom(o, types.ExprString(o)+" == nil", en, "bool", "bool")
		} else {
			a, ka := t.expr(e.X, en, "")
			wantB := ""
			if ka == "bool" {
				wantB = "bool"
			}
			b, kb := t.expr(e.Y, en, wantB)
			if (ka == "bool") != (kb == "bool") {
				failf("%s: comparison %s mixes a boolean and a number", t.pos(e), types.ExprString(e))
			}
			if ka == "bool" {
				c = "(Bool.eqb " + a + " " + b + ")"
			} else {
				c = "(" + a + " =? " + b + ")"
			}
		}
		if e.Op == token.NEQ {
			c = "(negb " + c + ")"
		}
		return c, "bool"
	case token.LSS, token.LEQ, token.GTR, token.GEQ:
		a, _ := t.intExpr(e.X, en)
		b, _ := t.intExpr(e.Y, en)
		return "(" + a + " " + cmpOps[e.Op] + " " + b + ")", "bool"
	case token.SHL, token.SHR:
		a, ka := t.intExpr(e.X, en)
		b, _ := t.intExpr(e.Y, en)
		if !isInt(ka) {
			ka = t.join(e, ka, ka)
		}
		if e.Op == token.SHL {
			return wrap(ka, "(Z.shiftl "+a+" "+b+")"), ka
		}
		return "(Z.shiftr " + a + " " + b + ")", ka
	}
	a, ka := t.intExpr(e.X, en)
	b, kb := t.intExpr(e.Y, en)
	k := t.join(e, ka, kb)
	switch e.Op {
	case token.ADD:
		return wrap(k, "("+a+" + "+b+")"), k
	case token.SUB:
		return wrap(k, "("+a+" - "+b+")"), k
	case token.MUL:
		return wrap(k, "("+a+" * "+b+")"), k
	case token.QUO:
		return wrap(k, "(Z.quot "+a+" "+b+")"), k
	case token.REM:
		return "(Z.rem " + a + " " + b + ")", k
	case token.AND:
		return "(Z.land " + a + " " + b + ")", k
	case token.OR:
		return "(Z.lor " + a + " " + b + ")", k
	case token.XOR:
		return "(Z.lxor " + a + " " + b + ")", k
	case token.AND_NOT:
		return "(Z.ldiff " + a + " " + b + ")", k
	}
	failf("%s: operator %s is outside the subset", t.pos(e), e.Op)
	return "", ""
}

// intrinsics of math/bits: Go name -> (Coq function, argument kind)
var bitsIntrinsics = map[string][2]string{
	"Len64":           {"bits_len64", "u64"},
	"Len32":           {"bits_len32", "u32"},
	"Len":             {"bits_len64", "uint"},
	"TrailingZeros64": {"bits_tz64", "u64"},
	"TrailingZeros32": {"bits_tz32", "u32"},
	"TrailingZeros":   {"bits_tz64", "uint"},
}

func (t *tr) call(e *ast.CallExpr, en *env, want string) (string, string) {
	// conversion T(x)
	if tv, ok := t.p.info.Types[e.Fun]; ok && tv.IsType() {
		to := kindOfType(tv.Type)
		if len(e.Args) != 1 || !isInt(to) {
			failf("%s: conversion %s is outside the subset (integer conversions only)", t.pos(e), types.ExprString(e))
		}
		c, k := t.intExpr(e.Args[0], en)
		if k == "untyped" || fits(k, to) {
			return c, to
		}
		return wrap(to, c), to
	}
	if id, ok := e.Fun.(*ast.Ident); ok && en.lookup(id.Name) == nil && t.free[id.Name] == nil {
		if _, isBuiltin := t.p.info.Uses[id].(*types.Builtin); isBuiltin && (id.Name == "len" || id.Name == "cap") && len(e.Args) == 1 {
			return t.atom(e, types.ExprString(e), en, want, "int")
		}
		failf("%s: call of %s is outside the subset", t.pos(e), id.Name)
	}
	if sel, ok := e.Fun.(*ast.SelectorExpr); ok {
		if id, ok := sel.X.(*ast.Ident); ok && en.lookup(id.Name) == nil && t.isPkgName(id) {
			if in, ok := bitsIntrinsics[sel.Sel.Name]; ok && t.importPath(id) == "math/bits" && len(e.Args) == 1 {
				c, k := t.intExpr(e.Args[0], en)
				if k != "untyped" && k != in[1] && !(k == "u64" && in[1] == "uint") && !(k == "uint" && in[1] == "u64") {
					failf("%s: argument of bits.%s has kind %s", t.pos(e), sel.Sel.Name, k)
				}
				return "(" + in[0] + " " + c + ")", "int"
			}
			failf("%s: call of package function %s is outside the subset", t.pos(e), types.ExprString(e.Fun))
		}
		return t.atom(e, types.ExprString(e), en, want, "")
	}
	failf("%s: call %s is outside the subset", t.pos(e), types.ExprString(e))
	return "", ""
}

// errExpr translates an expression in an `error` result position: nil, or a
// constructor call, which becomes EErr "<tag>".  The tag is the dotted callee
// without its final method name (ExpiredTransactionError.Errorf ->
// "ExpiredTransactionError", errors.IllegalArgumentError.New ->
// "errors.IllegalArgumentError"); a plain package function keeps its name
// (errors.New -> "errors.New").  Arguments (message texts) are ignored.
func (t *tr) errExpr(e ast.Expr) string {
	e = ast.Unparen(e)
	if isNil(e) {
		return "ENil"
	}
	if c, ok := e.(*ast.CallExpr); ok {
		var parts []string
		f := c.Fun
	walk:
		for {
			switch x := f.(type) {
			case *ast.SelectorExpr:
				parts = append([]string{x.Sel.Name}, parts...)
				f = x.X
			case *ast.Ident:
				parts = append([]string{x.Name}, parts...)
				if len(parts) > 2 || (len(parts) == 2 && !t.isPkgName(x)) {
					parts = parts[:len(parts)-1]
				}
				return `(EErr "` + strings.Join(parts, ".") + `")`
			default:
				break walk
			}
		}
	}
	failf("%s: error result %s is neither nil nor a constructor call", t.pos(e), types.ExprString(e))
	return ""
}

// ---------------------------------------------------------------------------
// statements (continuation-passing: the code after a statement is duplicated
// into every branch that falls through)
// ---------------------------------------------------------------------------

func indent(s string) string { return "  " + strings.ReplaceAll(s, "\n", "\n  ") }

func tuple(xs []string) string {
	switch len(xs) {
	case 0:
		return "tt"
	case 1:
		return xs[0]
	}
	return "(" + strings.Join(xs, ", ") + ")"
}

func tupleType(ks []string) string {
	switch len(ks) {
	case 0:
		return "unit"
	case 1:
		return coqType(ks[0])
	}
	ts := make([]string, len(ks))
	for i, k := range ks {
		ts[i] = coqType(k)
	}
	return "(" + strings.Join(ts, " * ") + ")"
}

func (t *tr) declare(id *ast.Ident, kind string, en *env) (*lvar, *env) {
	n, ok := t.declName[id]
	if !ok {
		n = t.fresh(id.Name)
		t.declName[id] = n
	}
	v := &lvar{n, kind}
	return v, en.bind(id.Name, v)
}

func varKind(k string, where string) string {
	switch {
	case k == "untyped":
		return "int"
	case isInt(k), k == "bool", k == "unknown":
		return k
	}
	failf("%s: value of kind %s cannot be held in a scalar variable", where, k)
	return ""
}

// simple translates an assignment-like statement into `let ... in` prefixes.
func (t *tr) simple(s ast.Stmt, cx ctx) (string, *env) {
	en := cx.en
	switch s := s.(type) {
	case nil, *ast.EmptyStmt:
		return "", en
	case *ast.IncDecStmt:
		id, ok := s.X.(*ast.Ident)
		if !ok {
			failf("%s: %s of a non-local", t.pos(s), s.Tok)
		}
		v := en.lookup(id.Name)
		if v == nil || !isInt(v.kind) {
			failf("%s: %s%s: not a scalar local of known width", t.pos(s), id.Name, s.Tok)
		}
		op := "+"
		if s.Tok == token.DEC {
			op = "-"
		}
		return fmt.Sprintf("let %s := %s in\n", v.coq, wrap(v.kind, "("+v.coq+" "+op+" 1)")), en
	case *ast.DeclStmt:
		gd, ok := s.Decl.(*ast.GenDecl)
		if !ok || gd.Tok != token.VAR {
			failf("%s: declaration is outside the subset", t.pos(s))
		}
		pre := ""
		for _, sp := range gd.Specs {
			vs := sp.(*ast.ValueSpec)
			dk := ""
			if vs.Type != nil {
				tv, ok := t.p.info.Types[vs.Type]
				if !ok {
					failf("%s: unresolved type in var declaration", t.pos(vs))
				}
				dk = kindOfType(tv.Type)
				if !isInt(dk) && dk != "bool" {
					failf("%s: var %s has a non-scalar type", t.pos(vs), vs.Names[0].Name)
				}
			}
			if len(vs.Values) != 0 && len(vs.Values) != len(vs.Names) {
				failf("%s: multi-value var declaration", t.pos(vs))
			}
			en0 := en
			for i, id := range vs.Names {
				c, k := zero(dk), dk
				if len(vs.Values) > 0 {
					w := ""
					if dk == "bool" {
						w = "bool"
					}
					var ek string
					c, ek = t.expr(vs.Values[i], en0, w)
					if dk == "" {
						k = varKind(ek, t.pos(vs))
					}
				}
				if id.Name == "_" {
					continue
				}
				var v *lvar
				v, en = t.declare(id, k, en)
				pre += fmt.Sprintf("let %s := %s in\n", v.coq, c)
			}
		}
		return pre, en
	case *ast.AssignStmt:
		if s.Tok != token.DEFINE && s.Tok != token.ASSIGN {
			// x op= e
			if len(s.Lhs) != 1 || len(s.Rhs) != 1 {
				failf("%s: malformed %s", t.pos(s), s.Tok)
			}
			id, ok := s.Lhs[0].(*ast.Ident)
			if !ok || en.lookup(id.Name) == nil {
				failf("%s: assignment to %s, which is not a scalar local", t.pos(s), types.ExprString(s.Lhs[0]))
			}
			ops := map[token.Token]token.Token{token.ADD_ASSIGN: token.ADD, token.SUB_ASSIGN: token.SUB, token.MUL_ASSIGN: token.MUL,
				token.QUO_ASSIGN: token.QUO, token.REM_ASSIGN: token.REM, token.AND_ASSIGN: token.AND, token.OR_ASSIGN: token.OR,
				token.XOR_ASSIGN: token.XOR, token.SHL_ASSIGN: token.SHL, token.SHR_ASSIGN: token.SHR, token.AND_NOT_ASSIGN: token.AND_NOT}
			op, ok := ops[s.Tok]
			if !ok {
				failf("%s: %s is outside the subset", t.pos(s), s.Tok)
			}
			c, _ := t.binary(&ast.BinaryExpr{X: id, OpPos: s.TokPos, Op: op, Y: s.Rhs[0]}, en)
			return fmt.Sprintf("let %s := %s in\n", en.lookup(id.Name).coq, c), en
		}
		if len(s.Lhs) != len(s.Rhs) {
			failf("%s: multi-value assignment from a call is outside the subset", t.pos(s))
		}
		var names, vals []string
		en2 := en
		for i, l := range s.Lhs {
			id, ok := l.(*ast.Ident)
			if !ok {
				failf("%s: assignment to %s, which is not a scalar local", t.pos(s), types.ExprString(l))
			}
			var old *lvar
			if id.Name != "_" {
				old = en.lookup(id.Name)
			}
			w := ""
			if old != nil && old.kind == "bool" {
				w = "bool"
			}
			c, k := t.expr(s.Rhs[i], en, w)
			if id.Name == "_" {
				continue
			}
			isNew := s.Tok == token.DEFINE && t.p.info.Defs[id] != nil
			if s.Tok == token.DEFINE && t.p.info.Defs[id] == nil && old == nil {
				isNew = true // no type information for this identifier
			}
			if isNew {
				var v *lvar
				v, en2 = t.declare(id, varKind(k, t.pos(s)), en2)
				names = append(names, v.coq)
			} else {
				if old == nil {
					failf("%s: assignment to %s, which is not a scalar local", t.pos(s), id.Name)
				}
				if (old.kind == "bool") != (k == "bool") {
					failf("%s: assignment changes the kind of %s", t.pos(s), id.Name)
				}
				names = append(names, old.coq)
			}
			vals = append(vals, c)
		}
		switch len(names) {
		case 0:
			return "", en2
		case 1:
			return fmt.Sprintf("let %s := %s in\n", names[0], vals[0]), en2
		}
		return fmt.Sprintf("let '%s := %s in\n", tuple(names), tuple(vals)), en2
	}
	failf("%s: statement is outside the subset (%T)", t.pos(s), s)
	return "", nil
}

func (t *tr) stmts(list []ast.Stmt, cx ctx, k cont) string {
	if len(list) == 0 {
		return k()
	}
	s, rest := list[0], list[1:]
	next := func() string { return t.stmts(rest, cx, k) }
	switch s := s.(type) {
	case *ast.EmptyStmt:
		return next()
	case *ast.BlockStmt:
		return t.stmts(s.List, cx, next)
	case *ast.ReturnStmt:
		return cx.ret(t.retExpr(s, cx.en))
	case *ast.AssignStmt, *ast.DeclStmt, *ast.IncDecStmt:
		pre, en2 := t.simple(s, cx)
		cx2 := cx
		cx2.en = en2
		return pre + t.stmts(rest, cx2, k)
	case *ast.BranchStmt:
		if s.Label != nil {
			failf("%s: labelled %s", t.pos(s), s.Tok)
		}
		switch {
		case s.Tok == token.BREAK && cx.brk != nil:
			return cx.brk()
		case s.Tok == token.CONTINUE && cx.cnt != nil:
			return cx.cnt()
		}
		failf("%s: %s is outside the subset here", t.pos(s), s.Tok)
	case *ast.IfStmt:
		pre, en2 := t.simple(s.Init, cx)
		cx2 := cx
		cx2.en = en2
		return pre + t.ifStmt(s, cx2, next)
	case *ast.SwitchStmt:
		return t.switchStmt(s, cx, next)
	case *ast.ForStmt:
		return t.forStmt(s, cx, next)
	}
	failf("%s: statement is outside the subset (%s)", t.pos(s), strings.TrimPrefix(fmt.Sprintf("%T", s), "*ast."))
	return ""
}

func (t *tr) ifStmt(s *ast.IfStmt, cx ctx, after cont) string {
	c := t.boolExpr(s.Cond, cx.en)
	th := t.stmts(s.Body.List, cx, after)
	var el string
	switch e := s.Else.(type) {
	case nil:
		el = after()
	case *ast.BlockStmt:
		el = t.stmts(e.List, cx, after)
	default:
		el = t.stmts([]ast.Stmt{e}, cx, after)
	}
	return "if " + c + " then\n" + indent(th) + "\nelse\n" + indent(el)
}

func (t *tr) switchStmt(s *ast.SwitchStmt, cx ctx, after cont) string {
	pre, en := t.simple(s.Init, cx)
	cx.en = en
	tag, tagBool := "", false
	if s.Tag != nil {
		c, k := t.expr(s.Tag, en, "")
		tagBool = k == "bool"
		if _, simpleTag := ast.Unparen(s.Tag).(*ast.Ident); simpleTag {
			tag = c
		} else {
			t.nsw++
			tag = t.fresh(fmt.Sprintf("sw%d", t.nsw))
			pre += fmt.Sprintf("let %s := %s in\n", tag, c)
		}
	}
	body := cx
	body.brk = after
	type clause struct{ cond, body string }
	var cls []clause
	def := ""
	hasDef := false
	for _, st := range s.Body.List {
		cc := st.(*ast.CaseClause)
		if n := len(cc.Body); n > 0 {
			if b, ok := cc.Body[n-1].(*ast.BranchStmt); ok && b.Tok == token.FALLTHROUGH {
				failf("%s: fallthrough", t.pos(b))
			}
		}
		if cc.List == nil {
			def = t.stmts(cc.Body, body, after)
			hasDef = true
			continue
		}
		var cs []string
		for _, x := range cc.List {
			switch {
			case s.Tag == nil:
				cs = append(cs, t.boolExpr(x, en))
			case tagBool:
				cs = append(cs, "(Bool.eqb "+tag+" "+t.boolExpr(x, en)+")")
			default:
				c, _ := t.intExpr(x, en)
				cs = append(cs, "("+tag+" =? "+c+")")
			}
		}
		cond := cs[0]
		if len(cs) > 1 {
			cond = "(" + strings.Join(cs, " || ") + ")"
		}
		cls = append(cls, clause{cond, t.stmts(cc.Body, body, after)})
	}
	if !hasDef {
		def = after()
	}
	acc := def
	for i := len(cls) - 1; i >= 0; i-- {
		acc = "if " + cls[i].cond + " then\n" + indent(cls[i].body) + "\nelse\n" + indent(acc)
	}
	return pre + acc
}

func containsReturn(n ast.Node) bool {
	found := false
	ast.Inspect(n, func(n ast.Node) bool {
		switch n.(type) {
		case *ast.ReturnStmt:
			found = true
		case *ast.FuncLit:
			return false
		}
		return !found
	})
	return found
}

func containsLoop(n ast.Node) bool {
	found := false
	ast.Inspect(n, func(n ast.Node) bool {
		switch n.(type) {
		case *ast.ForStmt, *ast.RangeStmt:
			found = true
		}
		return !found
	})
	return found
}

// assignedNames: names assigned (not declared) anywhere inside n.
func assignedNames(n ast.Node) map[string]bool {
	out := map[string]bool{}
	ast.Inspect(n, func(n ast.Node) bool {
		switch s := n.(type) {
		case *ast.AssignStmt:
			for _, l := range s.Lhs {
				if id, ok := l.(*ast.Ident); ok {
					out[id.Name] = true
				}
			}
		case *ast.IncDecStmt:
			if id, ok := s.X.(*ast.Ident); ok {
				out[id.Name] = true
			}
		}
		return true
	})
	return out
}

var identRe = regexp.MustCompile(`[A-Za-z_][A-Za-z0-9_']*`)

func (t *tr) forStmt(s *ast.ForStmt, cx ctx, after cont) string {
	pre, en1 := t.simple(s.Init, cx)
	if s.Cond == nil {
		failf("%s: `for` without a condition is outside the subset", t.pos(s))
	}
	t.nloop++
	fname := fmt.Sprintf("%s_loop%d", t.name, t.nloop)
	// loop state: variables visible at loop entry that the loop assigns
	asg := assignedNames(s.Body)
	if s.Post != nil {
		for n := range assignedNames(s.Post) {
			asg[n] = true
		}
	}
	var state []*lvar
	seen := map[*lvar]bool{}
	for _, v := range en1.vars() {
		if seen[v] {
			continue
		}
		seen[v] = true
		for n := range asg {
			if en1.lookup(n) == v {
				state = append(state, v)
				break
			}
		}
	}
	var sn, sk []string
	for _, v := range state {
		sn = append(sn, v.coq)
		sk = append(sk, v.kind)
	}
	hasRet := containsReturn(s.Body)
	exit := "Some " + tuple(sn)
	ty := "option " + tupleType(sk)
	if hasRet {
		exit = "Some (inr " + tuple(sn) + ")"
		ty = "option (" + t.resType + " + " + tupleType(sk) + ")"
	}
	const rec = "@@REC@@"
	bcx := ctx{en: en1, brk: func() string { return exit }}
	bcx.ret = func(e string) string { return "Some (inl " + e + ")" }
	bcx.cnt = func() string {
		if s.Post == nil {
			return rec
		}
		return t.stmts([]ast.Stmt{s.Post}, ctx{en: en1, ret: bcx.ret}, func() string { return rec })
	}
	cond := t.boolExpr(s.Cond, en1)
	body := t.stmts(s.Body.List, bcx, bcx.cnt)
	text := "if " + cond + " then\n" + indent(body) + "\nelse\n" + indent(exit)
	// arguments: every parameter / local the loop text mentions, plus the state
	mention := map[string]bool{}
	for _, id := range identRe.FindAllString(text, -1) {
		mention[id] = true
	}
	for _, n := range sn {
		mention[n] = true
	}
	var args, decls []string
	done := map[string]bool{}
	add := func(coq, kind string) {
		if mention[coq] && !done[coq] {
			done[coq] = true
			args = append(args, coq)
			decls = append(decls, fmt.Sprintf("(%s : %s)", coq, coqType(kind)))
		}
	}
	for _, p := range t.params {
		add(p.coq, normKind(p.kind))
	}
	for _, v := range en1.vars() {
		add(v.coq, v.kind)
	}
	argS := strings.Join(args, " ")
	text = strings.ReplaceAll(text, rec, strings.TrimSpace(fname+" fuel' "+argS))
	t.loops = append(t.loops, fmt.Sprintf("Fixpoint %s (fuel : nat) %s {struct fuel} : %s :=\n  match fuel with\n  | O => None\n  | S fuel' =>\n%s\n  end.\n",
		fname, strings.Join(decls, " "), ty, indent(indent(text))))
	call := strings.TrimSpace(fname + " fuel " + argS)
	k := after()
	if hasRet {
		return pre + fmt.Sprintf("match %s with\n| None => None\n| Some (inl r__) => %s\n| Some (inr %s) =>\n%s\nend", call, cx.ret("r__"), tuple(sn), indent(k))
	}
	return pre + fmt.Sprintf("match %s with\n| None => None\n| Some %s =>\n%s\nend", call, tuple(sn), indent(k))
}

func (t *tr) retExpr(s *ast.ReturnStmt, en *env) string {
	if len(s.Results) == 0 {
		if len(t.resNames) != len(t.results) || len(t.results) == 0 {
			failf("%s: bare return", t.pos(s))
		}
		var xs []string
		for _, n := range t.resNames {
			v := en.lookup(n)
			if v == nil {
				failf("%s: named result %s is not a scalar", t.pos(s), n)
			}
			xs = append(xs, v.coq)
		}
		return tuple(xs)
	}
	if len(s.Results) != len(t.results) {
		failf("%s: return of a multi-value call is outside the subset", t.pos(s))
	}
	var xs []string
	for i, r := range s.Results {
		switch k := t.results[i]; {
		case k == "error":
			xs = append(xs, t.errExpr(r))
		case k == "bool":
			xs = append(xs, t.boolExpr(r, en))
		default:
			c, ek := t.intExpr(r, en)
			if isInt(ek) && isInt(k) && ek != k && !(fits(ek, k) && fits(k, ek)) {
				failf("%s: result %d has kind %s, function declares %s", t.pos(r), i+1, ek, k)
			}
			xs = append(xs, c)
		}
	}
	return tuple(xs)
}
