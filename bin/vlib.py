#!/usr/bin/env python3
"""Shared driver code for /verif/bin/check, /verif/bin/setup, /verif/bin/mkmanifest.

Pipeline per property (see DESIGN.md §1, §2):
  (P) rebuild the Coq development (generated kernels are re-translated from
      /repo first); the property's Prop_*.vo must compile;
  (T) rebuild the harness binary against /repo's working tree, run the
      implementation on generated cases, evaluate the model on the same cases
      inside Coq (vm_compute) and collect mismatching indices;
  (S) the direct oracle runs on every generated case; when (P) or (T) is
      broken an extended search for a concrete failing input runs.
"""
import fcntl, glob, hashlib, json, os, re, shutil, subprocess, sys, time
from concurrent.futures import ThreadPoolExecutor

VERIF = os.path.dirname(os.path.dirname(os.path.abspath(__file__)))
REPO = os.environ.get("VERIF_REPO", "/repo")
REPO = os.path.abspath(REPO)
ALT = REPO != "/repo"     # checking a scratch worktree (mutation testing): isolate all outputs
WORK = os.path.join(VERIF, ".work")
if ALT:
    WORK = os.path.join(WORK, "alt-" + hashlib.sha256(REPO.encode()).hexdigest()[:10])
COQ = os.path.join(WORK, "coq") if ALT else os.path.join(VERIF, "coq")
HARNESS = os.path.join(VERIF, "harness")
KNOWN = os.path.join(VERIF, "known-findings.txt")
REPLAYS = os.path.join(WORK, "replays") if ALT else os.path.join(VERIF, "replays")
EVIDENCE = os.path.join(WORK, "evidence") if ALT else os.path.join(VERIF, "evidence")


def prepare_alt():
    """a scratch worktree gets its own copy of the Coq tree (kernels are re-translated from it)"""
    if ALT:
        os.makedirs(WORK, exist_ok=True)
        subprocess.run(["rsync", "-a", "--delete", os.path.join(VERIF, "coq") + "/", COQ + "/"], check=True)

GOENV = dict(os.environ, GOFLAGS="-mod=mod", GOPROXY="off", GOSUMDB="off", GOTOOLCHAIN="local",
             CGO_ENABLED=os.environ.get("CGO_ENABLED", "1"), VERIF_REPO=REPO)

FORBIDDEN = r"\b(Admitted|admit|Axiom|Axioms|Parameter|Parameters|Conjecture|Admit Obligations)\b|Unset Guard|bypass_check|Unset Positivity|Unset Universe|type-in-type|impredicative-set|native_compute"


def sh(cmd, cwd=None, env=None, timeout=None, shell=False):
    """run, return (rc, combined output)"""
    try:
        p = subprocess.run(cmd, cwd=cwd, env=env, timeout=timeout, shell=shell,
                           stdout=subprocess.PIPE, stderr=subprocess.STDOUT, text=True, errors="replace")
        return p.returncode, p.stdout
    except subprocess.TimeoutExpired as e:
        out = e.stdout or ""
        if isinstance(out, bytes):
            out = out.decode(errors="replace")
        return 124, out + "\n[timeout after %ss]" % timeout


def load_cfg(pid):
    with open(os.path.join(VERIF, "checks", pid + ".json")) as f:
        return json.load(f)


def all_ids():
    """properties accepted into the manifest: listed in checks/ENABLED and having a checks/<id>.json"""
    try:
        en = [l.strip() for l in open(os.path.join(VERIF, "checks", "ENABLED")) if l.strip() and not l.startswith("#")]
    except FileNotFoundError:
        en = []
    return sorted(p for p in en if os.path.exists(os.path.join(VERIF, "checks", p + ".json")))


# ----------------------------------------------------------------------------
# Coq build
# ----------------------------------------------------------------------------

def coq_sources():
    srcs = []
    for root in ("theories", "run"):
        for dp, dn, fn in os.walk(os.path.join(COQ, root)):
            for f in fn:
                if f.endswith(".v") and not f.startswith("."):
                    srcs.append(os.path.relpath(os.path.join(dp, f), COQ))
    return sorted(srcs)


def write_if_changed(path, content):
    try:
        with open(path) as f:
            if f.read() == content:
                return False
    except FileNotFoundError:
        pass
    os.makedirs(os.path.dirname(path), exist_ok=True)
    with open(path, "w") as f:
        f.write(content)
    return True


def regen_kernels(log):
    """Re-translate the scalar kernels from /repo's current source (go2coq).
    Returns dict kernel-name -> error text for kernels that could not be translated."""
    tool = os.path.join(VERIF, "tools", "go2coq")
    klist = os.path.join(tool, "kernels.list")
    if not os.path.exists(klist):
        return {}
    os.makedirs(os.path.join(WORK, "bin"), exist_ok=True)
    binp = os.path.join(WORK, "bin", "go2coq")
    rc, out = sh(["go", "build", "-o", binp, "."], cwd=tool, env=dict(GOENV, GOFLAGS="-mod=mod"), timeout=600)
    if rc != 0:
        log.append("go2coq build failed:\n" + out)
        return {"*": "translator does not build: " + out[-2000:]}
    stage = os.path.join(WORK, "gen-stage")
    shutil.rmtree(stage, ignore_errors=True)
    os.makedirs(stage)
    rc, out = sh([binp, "-repo", REPO, "-kernels", klist, "-out", stage], timeout=600, env=GOENV)
    log.append("go2coq: rc=%d\n%s" % (rc, out[-4000:]))
    errors = {}
    errp = os.path.join(stage, "errors.json")
    if os.path.exists(errp):
        errors = json.load(open(errp))
    gen = os.path.join(COQ, "theories", "gen")
    os.makedirs(gen, exist_ok=True)
    produced = set()
    for f in sorted(os.listdir(stage)):
        if f.endswith(".v"):
            produced.add(f)
            write_if_changed(os.path.join(gen, f), open(os.path.join(stage, f)).read())
    # a kernel that no longer translates loses its file, so dependants stop compiling
    for f in os.listdir(gen):
        if f.endswith(".v") and f not in produced:
            os.remove(os.path.join(gen, f))
            for ext in (".vo", ".glob", ".vos", ".vok"):
                try:
                    os.remove(os.path.join(gen, f[:-2] + ext))
                except FileNotFoundError:
                    pass
    if rc != 0 and not errors:
        errors["*"] = out[-2000:]
    return errors


def coq_build(log, targets=None, jobs=16, timeout=3000):
    """(Re)build the Coq project incrementally under an exclusive lock.
    Returns (kernel_errors, make_rc, make_output)."""
    os.makedirs(WORK, exist_ok=True)
    with open(os.path.join(WORK, "coq.lock"), "w") as lk:
        fcntl.flock(lk, fcntl.LOCK_EX)
        kerr = regen_kernels(log)
        srcs = coq_sources()
        proj = "-Q theories Goloop\n-Q run GoloopRun\n-arg -w -arg -notation-overridden,-deprecated-hint-without-locality,-deprecated-instance-without-locality,-ambiguous-paths,-deprecated-syntactic-definition\n" + "\n".join(srcs) + "\n"
        changed = write_if_changed(os.path.join(COQ, "_CoqProject"), proj)
        mk = os.path.join(COQ, "Makefile")
        if changed or not os.path.exists(mk):
            rc, out = sh(["coq_makefile", "-f", "_CoqProject", "-o", "Makefile"], cwd=COQ, timeout=120)
            if rc != 0:
                return kerr, rc, out
        cmd = ["make", "-k", "-j%d" % jobs]
        if targets:
            cmd += targets
        if targets and os.environ.get("VERIF_DEV"):
            # development mode: targeted builds of disjoint closures may run side by side
            fcntl.flock(lk, fcntl.LOCK_UN)
        rc, out = sh(cmd, cwd=COQ, timeout=timeout)
        log.append("make rc=%d\n%s" % (rc, out[-6000:]))
        return kerr, rc, out


def vo_fresh(rel_v):
    """is the .vo of a source up to date w.r.t. make's view?"""
    vo = rel_v[:-2] + ".vo"
    if not os.path.exists(os.path.join(COQ, vo)):
        return False
    rc, _ = sh(["make", "-q", vo], cwd=COQ, timeout=120)
    return rc == 0


def prop_assumptions(rel_v):
    """Re-run coqc on a (compiled) Prop file to capture the Print Assumptions output."""
    rc, out = sh(["coqc", "-Q", "theories", "Goloop", "-Q", "run", "GoloopRun", "-w", "none", rel_v], cwd=COQ, timeout=900)
    return rc, out


def count_theorems(rel_v):
    txt = open(os.path.join(COQ, rel_v)).read()
    txt = re.sub(r"\(\*.*?\*\)", "", txt, flags=re.S)
    return re.findall(r"^\s*(?:Theorem|Lemma|Corollary)\s+([A-Za-z0-9_']+)", txt, flags=re.M)


def coq_closure(rel_files):
    """source files (relative to COQ) reachable from rel_files through Require of Goloop/GoloopRun modules"""
    by_base = {}
    for rel in coq_sources():
        by_base.setdefault(os.path.basename(rel)[:-2], []).append(rel)
    seen, todo = set(), [r for r in rel_files if os.path.exists(os.path.join(COQ, r))]
    while todo:
        rel = todo.pop()
        if rel in seen:
            continue
        seen.add(rel)
        txt = open(os.path.join(COQ, rel)).read()
        txt = re.sub(r"\(\*.*?\*\)", " ", txt, flags=re.S)
        for m in re.finditer(r"\bRequire\s+(?:Import\s+|Export\s+)?([^.]*?(?:\.[A-Za-z_][^.]*?)*)\.\s", txt):
            for tok in m.group(1).split():
                base = tok.split(".")[-1]
                for cand in by_base.get(base, []):
                    if cand not in seen:
                        todo.append(cand)
    return sorted(seen)


def forbidden_scan(rel_files=None):
    """grep the property's dependency closure (or the whole tree) for forbidden vernacular"""
    hits = []
    files = coq_closure(rel_files) if rel_files else coq_sources()
    for rel in files:
        txt = open(os.path.join(COQ, rel)).read()
        stripped = re.sub(r"\(\*.*?\*\)", lambda m: " " * len(m.group(0)), txt, flags=re.S)
        for m in re.finditer(FORBIDDEN, stripped):
            line = stripped.count("\n", 0, m.start()) + 1
            hits.append("%s:%d: %s" % (rel, line, m.group(0)))
    return hits


# ----------------------------------------------------------------------------
# harness
# ----------------------------------------------------------------------------

def overlay_json(cfg, work):
    """go build -overlay file mapping add-only, build-tagged shim files into /repo packages."""
    repl = {}
    for rel in cfg.get("overlay", []):
        src = os.path.join(HARNESS, "overlay", rel)
        pkg = os.path.dirname(rel)
        dst = os.path.join(REPO, pkg, "zz_verif_" + os.path.basename(rel))
        repl[dst] = src
    p = os.path.join(work, "overlay.json")
    with open(p, "w") as f:
        json.dump({"Replace": repl}, f)
    return p


def build_harness(cfg, work, log):
    name = cfg["harness"]
    binp = os.path.join(work, "hx-" + name)
    # per-run module file: `replace github.com/icon-project/goloop => <REPO>`, go.sum from REPO
    modf = os.path.join(work, "go.mod")
    with open(os.path.join(HARNESS, "go.mod")) as f:
        mod = f.read().replace("=> /repo", "=> " + REPO)
    with open(modf, "w") as f:
        f.write(mod)
    try:
        shutil.copyfile(os.path.join(REPO, "go.sum"), os.path.join(work, "go.sum"))
    except OSError:
        pass
    ov = overlay_json(cfg, work)
    cmd = ["go", "build", "-modfile", modf, "-tags", "verif", "-overlay", ov, "-o", binp, "./cmd/" + name]
    rc, out = sh(cmd, cwd=HARNESS, env=GOENV, timeout=1500)
    log.append("harness build rc=%d\n%s" % (rc, out[-4000:]))
    return (binp if rc == 0 else None), out


def run_shard(args):
    work, shard = args
    t = time.time()
    rc, out = sh(["coqc", "-Q", os.path.join(COQ, "theories"), "Goloop", "-Q", os.path.join(COQ, "run"), "GoloopRun",
                  "-w", "none", "-noglob", shard["file"]], cwd=work, timeout=3000)
    m = re.search(r"M\s*=\s*(\[.*?\])\s*:\s*list nat", out, flags=re.S)
    if rc != 0 or not m:
        return shard, None, out[-3000:], time.time() - t
    idx = [int(x) for x in re.findall(r"(\d+)(?:%nat)?", m.group(1))]
    return shard, idx, "", time.time() - t


# ----------------------------------------------------------------------------
# known findings
# ----------------------------------------------------------------------------

def known_findings(pid):
    """lines:  finding: property=Cxx match=<substring> :: description
               fixed: property=Cxx <commit> <what failed>            (suppresses nothing)"""
    res = []
    if not os.path.exists(KNOWN):
        return res
    for line in open(KNOWN):
        line = line.strip()
        m = re.match(r"finding:\s+property=(\S+)\s+match=(.+?)\s+::\s+(.*)$", line)
        if m and m.group(1) == pid:
            res.append((m.group(2), m.group(3)))
    return res
